"""C04 - interpreted OAL computes what the action language defines."""
from hypothesis import strategies as st

import xtuml
from bridgepoint import ooaofooa, interpret
from . import oalprog, oalsyn
from .oalgen import Printer, render
from .oalref import Evaluator, World, Discard
from .shadow import Rec
from .gen_schema import Schema
from .core import Violation, hyp_run, Res, exc_bucket, TimeLimit

PROPERTY = 'C04'
RULE = ('Hypothesis: type-correct, name-resolved OAL function bodies (<= 12 statements / depth 3 quick, <= 40 / depth 5 '
        'thorough) grown from a choice tape over a fixed nine-class schema (integer, string, boolean, real and id '
        'attributes; R1 1:M, R2 1:1 conditional, R3 reflexive with phrases, R4 association class, R5 sub/supertype) and a '
        'drawn initial population with links; statements: assignment, attribute write, create, delete, relate / '
        'relate-using / guarded unrelate, select any/many from instances (with where), select one/any/many related by '
        'chains of 1-3 hops (with where), if/elif/else, bounded while, for each, break, continue, return (incl. nested), '
        'control stop; a second family over a reflexive LINKED association (persons employ persons using employments, two halves told '
        "apart by their phrases): relate / unrelate ... across R6.'phrase' using m in either direction and phrase, unrelate also from the other end, "
        'read back from both ends through the link class; a third family of chain probes: from the k-th instance of a class, select any / many along fixed chains of two and three '
        'steps (to-many steps first, with and without where) over the drawn population, so that dead ends before a result are common; expressions over all arithmetic / comparison / boolean operators, cardinality / empty / not_empty. '
        'Oracle: the same AST executed by the reference evaluator (pbt/oalref.py) over the plain relational shadow: '
        'equal return value and equal final population (instances per class in order, every attribute, links from both '
        'directions). Programs the reference cannot give a meaning to are discarded and counted. non-trivial = program '
        'with a loop containing break/continue or a nested loop, a where clause or multi-step chain, and a mutation; '
        'distinct = by (program text, population).')
ASSUMPTIONS = [
    'only error-free programs with a language-defined meaning are compared (see the discard histogram)',
    'integer division is compared only when exact; % only for non-negative operands',
    'deleting an instance that still participates in links is treated as erroneous (discarded)',
    'keywords are written in lower case here (C08 varies the case)',
]

SCHEMA = oalprog.SCHEMA


@st.composite
def populations(draw):
    pop = []
    for cls in oalprog.CLASSES:
        for _ in range(draw(st.integers(1, 4))):
            vals = {}
            for an, at in oalprog.ATTRS[cls]:
                if draw(st.booleans()):
                    vals[an] = draw({'int': st.integers(-3, 9), 'str': st.sampled_from(['', 'a', 'b', 'xy']),
                                     'bool': st.booleans(), 'real': st.sampled_from([0.5, 1.5, -2.0])}[at])
            pop.append([cls, vals])
    links = draw(st.lists(st.tuples(st.integers(0, len(SCHEMA['assocs']) - 1), st.integers(0, 5), st.integers(0, 5)),
                          min_size=10, max_size=40))
    return {'rows': pop, 'links': [list(l) for l in links]}


def cases(max_stmts, max_depth):
    return st.fixed_dictionaries({'tape': oalsyn.tapes(600, 60), 'pop': populations(),
                                  'max_stmts': st.just(max_stmts), 'max_depth': st.just(max_depth)})


def build(pop, SCHEMA=SCHEMA):
    """-> (domain, world, real instances by creation index)"""
    domain = ooaofooa.Domain(xtuml.IntegerGenerator())
    for c in SCHEMA['classes']:
        domain.define_class(c['name'], [tuple(a) for a in c['attrs']])
    for u in SCHEMA['uniques']:
        domain.define_unique_identifier(u['cls'], u['name'], *u['attrs'])
    for a in SCHEMA['assocs']:
        domain.define_association(a['rel'], a['src'], list(a['src_keys']), a['src_many'], a['src_cond'], a['src_phrase'],
                                   a['tgt'], list(a['tgt_keys']), a['tgt_many'], a['tgt_cond'], a['tgt_phrase']).formalize()
    w = World(SCHEMA)
    real = []
    for cls, vals in pop['rows']:
        real.append(domain.new(cls, **vals))
        w.create(cls, vals)
    sc = w.sh.schema
    for i, s, t in pop['links']:
        a = sc.assocs[i]
        srcs = w.sh.live(a['src'])
        tgts = w.sh.live(a['tgt'])
        if not srcs or not tgts:
            continue
        sr, tr = srcs[s % len(srcs)], tgts[t % len(tgts)]
        if sr is tr:
            continue
        if a['shape'] == 'assoc' and w.sh.partners(i, sr, True):
            continue
        try:
            if w.sh.relate(sr, tr, a['rel'], a['src_phrase']) != 'linked':
                continue
        except Exception:
            continue
        xtuml.relate(real[sr.idx], real[tr.idx], a['rel'], a['src_phrase'])
    return domain, w, real


def compare_population(domain, sh, case, tag='final'):
    """Position-wise bijection per class, then attributes and links from both directions."""
    def fail(bucket, detail):
        raise Violation('%s-%s' % (tag, bucket), case, detail)
    sc = sh.schema
    real = {}
    for c in sc.classes:
        insts = list(domain.select_many(c['name']))
        live = sh.live(c['name'])
        if len(insts) != len(live):
            fail('instance-count:%s' % c['name'], '%s: %d instances, reference %d' % (c['name'], len(insts), len(live)))
        for inst, rec in zip(insts, live):
            real[rec.idx] = inst
    back = dict((id(v), k) for k, v in real.items())
    for c in sc.classes:
        for rec in sh.live(c['name']):
            for n, t in c['attrs']:
                got = getattr(real[rec.idx], n)
                want = sh.attr(rec, n)
                if not veq(got, want):
                    kind = 'referential' if n in sc.referentials(c['name']) else 'plain'
                    fail('%s-attribute:%s.%s' % (kind, c['name'], n), '%r.%s = %r, reference %r' % (rec, n, got, want))
    for i, a in enumerate(sc.assocs):
        for rec in sh.live(a['src']):
            want = [p.idx for p in sh.partners(i, rec, True)]
            got = [back.get(id(x), -1) for x in xtuml.navigate_many(real[rec.idx]).nav(a['tgt'], a['rel'], a['src_phrase'])()]
            if got != want:
                fail('links:R%d' % a['rel'], 'R%d from %r: %r, reference %r' % (a['rel'], rec, got, want))
        for rec in sh.live(a['tgt']):
            want = [p.idx for p in sh.partners(i, rec, False)]
            got = [back.get(id(x), -1) for x in xtuml.navigate_many(real[rec.idx]).nav(a['src'], a['rel'], a['tgt_phrase'])()]
            if got != want:
                fail('links-backward:R%d' % a['rel'], 'R%d to %r: %r, reference %r' % (a['rel'], rec, got, want))
    return real, back


def veq(a, b):
    if a is None or b is None:
        return a is None and b is None
    if isinstance(a, bool) != isinstance(b, bool):
        return False
    if isinstance(a, (int, float)) and isinstance(b, (int, float)):
        return a == b
    return type(a) is type(b) and a == b


def value_eq(got, want, back):
    """return values: handles by (class, creation index), sets as ordered lists"""
    if isinstance(want, Rec):
        return back.get(id(got)) == want.idx
    if isinstance(want, list):
        try:
            return [back.get(id(x), -1) for x in got] == [r.idx for r in want]
        except TypeError:
            return False
    return veq(got, want)


def text_of(ast):
    p = Printer(choose=lambda key, options: options[0])
    p.block(ast['block'])
    return render(p.toks, [' '])[0]


def nontrivial(features):
    loopish = ('break-continue' in features and ('while' in features or 'foreach' in features)) or 'nested-loop' in features
    return loopish and ('where' in features or 'chain' in features) and \
        bool(features & set(['create', 'attr-write', 'relate', 'unrelate', 'delete', 'relate-using']))


def run_case(case, res=None):
    ast, features = oalprog.program(case['tape'], case['max_stmts'], case['max_depth'])
    text = text_of(ast)
    info = dict(case, text=text)
    domain, w, _real = build(case['pop'])
    compare_population(domain, w.sh, info, 'initial')
    try:
        want = Evaluator(w).run_body(ast)
    except Discard as d:
        if res is not None:
            res.discarded[d.reason] += 1
            res.classes['discarded'] += 1
        return
    try:
        with TimeLimit(20):
            got = interpret.run_function(domain, 'check', text, {})
    except TimeLimit.Expired:
        raise Violation('interpreter-does-not-terminate', info, 'no result within 20 s')
    except Exception as e:
        raise Violation('interpreter-exception:' + exc_bucket(e), info, '%r\n%s' % (e, text))
    real, back = compare_population(domain, w.sh, info)
    if not value_eq(got, want, back):
        raise Violation('return-value:' + '+'.join(sorted(features & set(['while', 'foreach', 'break-continue', 'where', 'chain',
                                                                           'elif', 'return', 'control-stop', 'bare-return']))),
                        info, 'returned %r, reference %r\n%s' % (got, want, text))
    if res is not None:
        nt = nontrivial(features)
        res.case([text, case['pop']], nt, sample=text if nt and len(text) < 900 else None,
                 classes=sorted('f:' + f for f in features) + ['compared'])


# -- reflexive linked association: `relate a to b across R6.'phrase' using m` ----------------------------------------
# persons W employ persons W, each employment is an instance of M (modelled the way BridgePoint models a linked
# association between two ends of one class: two halves under one number, told apart by their phrases)
RSCHEMA = {
    'classes': [{'name': 'W', 'attrs': [['Id', 'UNIQUE_ID'], ['n', 'INTEGER']]},
                {'name': 'M', 'attrs': [['Boss_Id', 'UNIQUE_ID'], ['Wrk_Id', 'UNIQUE_ID'], ['n', 'INTEGER']]}],
    'assocs': [oalprog.A_(6, 'assoc', 'M', ['Boss_Id'], True, True, 'is employed by', 'W', ['Id'], False, 'employs'),
               oalprog.A_(6, 'assoc', 'M', ['Wrk_Id'], True, True, 'employs', 'W', ['Id'], False, 'is employed by')],
    'uniques': [{'cls': 'W', 'name': 'I1', 'attrs': ['Id']}],
}
PHR = ['employs', 'is employed by']


def linked_cases():
    return st.fixed_dictionaries({'linked': st.just(True), 'nw': st.integers(2, 4), 'nm': st.integers(1, 4),
                                  'ops': st.lists(st.tuples(st.integers(0, 9), st.integers(0, 9), st.integers(0, 9), st.integers(0, 1),
                                                            st.integers(0, 3)), min_size=1, max_size=7)})


def linked_program(case):
    """-> (ast, features): picks every instance by its n, then relates / unrelates persons using employments (a free
    employment is related in the drawn direction and phrase; one in use is unrelated as it was related or, just as good,
    from the other end under the other phrase), then reads what every person reaches from both ends"""
    from .oalgen import N, block
    V = lambda n: N('VariableAccessNode', variable_name=n)
    I = lambda k: N('IntegerNode', value=str(k))
    stmts = []
    for cls, pre, cnt in (('W', 'w', case['nw']), ('M', 'm', case['nm'])):
        for k in range(cnt):
            stmts.append(N('SelectFromWhereNode', cardinality='any', variable_name='%s%d' % (pre, k), key_letter=cls,
                           where_clause=N('BinaryOperationNode', left=N('FieldAccessNode', handle=N('SelectedAccessNode'), name='n'),
                                          operator='==', right=I(k))))
    used = {}
    feats = set(['linked-reflexive'])
    for k, a, b, ph, style in case['ops']:
        free = [m for m in range(case['nm']) if m not in used]
        busy = sorted(used)
        if free and (not busy or k % 3):
            m = free[k % len(free)]
            a, b = a % case['nw'], b % case['nw']
            used[m] = (a, b, ph)
            stmts.append(N('RelateUsingNode', from_variable_name='w%d' % a, to_variable_name='w%d' % b, rel_id='R6',
                           phrase="'%s'" % PHR[ph], using_variable_name='m%d' % m))
            feats.add('relate-using')
            if a == b:
                feats.add('relate-using-self')
        else:
            m = busy[k % len(busy)]
            a, b, ph = used.pop(m)
            if style % 2:
                a, b, ph = b, a, 1 - ph
                feats.add('unrelate-using-other-end')
            stmts.append(N('UnrelateUsingNode', from_variable_name='w%d' % a, to_variable_name='w%d' % b, rel_id='R6',
                           phrase="'%s'" % PHR[ph], using_variable_name='m%d' % m))
            feats.add('unrelate-using')
    stmts.append(N('AssignmentNode', variable_access=V('acc'), expression=I(0)))
    for k in range(case['nw']):
        for ph in (0, 1):
            step = lambda kl: N('NavigationStepNode', key_letter=kl, rel_id='R6', phrase="'%s'" % PHR[ph])
            stmts.append(N('SelectRelatedNode', cardinality='many', variable_name='r', handle=V('w%d' % k),
                           navigation_chain=N('NavigationListNode', children=[step('M'), step('W')])))
            stmts.append(N('AssignmentNode', variable_access=V('acc'), expression=N(
                'BinaryOperationNode', left=N('BinaryOperationNode', left=V('acc'), operator='*', right=I(5)), operator='+',
                right=N('UnaryOperationNode', operator='cardinality', operand=V('r')))))
            stmts.append(N('ForEachNode', instance_variable_name='e', set_variable_name='r', block=block([
                N('AssignmentNode', variable_access=V('acc'), expression=N(
                    'BinaryOperationNode', left=V('acc'), operator='+', right=N('FieldAccessNode', handle=V('e'), name='n')))])))
    stmts.append(N('ReturnNode', expression=V('acc')))
    return N('BodyNode', block=block(stmts)), feats


def run_linked(case, res=None):
    ast, features = linked_program(case)
    text = text_of(ast)
    info = dict(case, text=text)
    pop = {'rows': [['W', {'n': k}] for k in range(case['nw'])] + [['M', {'n': k}] for k in range(case['nm'])], 'links': []}
    domain, w, _real = build(pop, RSCHEMA)
    try:
        want = Evaluator(w).run_body(ast)
    except Discard as d:
        if res is not None:
            res.discarded['linked: ' + d.reason] += 1
        return
    try:
        with TimeLimit(20):
            got = interpret.run_function(domain, 'check', text, {})
    except TimeLimit.Expired:
        raise Violation('interpreter-does-not-terminate', info, 'no result within 20 s')
    except Exception as e:
        raise Violation('interpreter-exception:' + exc_bucket(e), info, '%r\n%s' % (e, text))
    real, back = compare_population(domain, w.sh, info, 'linked-reflexive')
    if not value_eq(got, want, back):
        raise Violation('return-value:linked-reflexive', info, 'returned %r, reference %r\n%s' % (got, want, text))
    if res is not None:
        nt = 'unrelate-using' in features and len(case['ops']) >= 3
        res.case([text], nt, sample=text if nt and len(res.samples) < 2 else None, classes=sorted('f:' + f for f in features) + ['compared-linked'])


# -- multi-step chains from every instance: what `select any / one / many ... related by` reaches ---------------------------
CHAINS = {'A': [[('L', 4), ('D', 4)], [('B', 1), ('A', 1)], [('D', 4), ('L', 4)], [('C', 2), ('A', 2), ('B', 1)]],
          'D': [[('L', 4), ('A', 4)], [('A', 4), ('B', 1)], [('L', 4), ('A', 4), ('C', 2)]],
          'B': [[('A', 1), ('L', 4)], [('A', 1), ('D', 4)], [('A', 1), ('L', 4), ('D', 4)]]}


def chain_cases():
    # few starting instances, many link instances, more links on the near half than on the far one: a first partner that leads
    # nowhere while a later one does is the common case
    rows = [[c, {'n': k} if c != 'T2' else {}] for c, cnt in (('A', 2), ('B', 3), ('C', 2), ('P', 1), ('D', 2), ('L', 5), ('S', 1), ('T1', 1), ('T2', 1))
            for k in range(cnt)]
    links = st.lists(st.tuples(st.sampled_from([0, 0, 1, 3, 3, 3, 4, 4]), st.integers(0, 5), st.integers(0, 5)), min_size=8, max_size=24)
    pops = links.map(lambda ls: {'rows': rows, 'links': [list(l) for l in ls]})
    return st.fixed_dictionaries({'chains': st.just(True), 'pop': pops,
                                  'picks': st.lists(st.tuples(st.sampled_from(['A', 'D', 'B']), st.integers(0, 2), st.integers(0, 3),
                                                              st.sampled_from(['any', 'any', 'many']), st.booleans()), min_size=2, max_size=6)})


def chain_program(case):
    from .oalgen import N, block
    V = lambda n: N('VariableAccessNode', variable_name=n)
    I = lambda k: N('IntegerNode', value=str(k))
    stmts = [N('AssignmentNode', variable_access=V('acc'), expression=I(0))]
    for k, (cls, which, ch, card, where) in enumerate(case['picks']):
        chain = CHAINS[cls][ch % len(CHAINS[cls])]
        last = chain[-1][0]
        # the which-th instance of the class (instances are told apart by position only): walk the extent
        stmts.append(N('SelectFromNode', cardinality='many', variable_name='all%d' % k, key_letter=cls))
        stmts.append(N('AssignmentNode', variable_access=V('i%d' % k), expression=I(0)))
        nav = N('NavigationListNode', children=[N('NavigationStepNode', key_letter=kl, rel_id='R%d' % rel, phrase='') for kl, rel in chain])
        if where and last in ('A', 'B', 'D'):
            sel = N('SelectRelatedWhereNode', cardinality=card, variable_name='r%d' % k, handle=V('h%d' % k), navigation_chain=nav,
                    where_clause=N('BinaryOperationNode', left=N('FieldAccessNode', handle=N('SelectedAccessNode'), name='n'),
                                   operator='>=', right=I(0)))
        else:
            sel = N('SelectRelatedNode', cardinality=card, variable_name='r%d' % k, handle=V('h%d' % k), navigation_chain=nav)
        if card == 'many':
            use = [N('AssignmentNode', variable_access=V('acc'), expression=N(
                'BinaryOperationNode', left=N('BinaryOperationNode', left=V('acc'), operator='*', right=I(7)), operator='+',
                right=N('UnaryOperationNode', operator='cardinality', operand=V('r%d' % k))))]
        else:
            use = [N('IfNode', expression=N('UnaryOperationNode', operator='not_empty', operand=V('r%d' % k)),
                     block=block([N('AssignmentNode', variable_access=V('acc'), expression=N(
                         'BinaryOperationNode', left=N('BinaryOperationNode', left=V('acc'), operator='*', right=I(7)), operator='+',
                         right=N('BinaryOperationNode', left=N('FieldAccessNode', handle=V('r%d' % k), name='n'), operator='+', right=I(100))))]),
                     elif_list=N('ElIfListNode', children=[]),
                     else_clause=N('ElseNode', block=block([N('AssignmentNode', variable_access=V('acc'), expression=N(
                         'BinaryOperationNode', left=V('acc'), operator='*', right=I(5)))])))]
        body = [N('IfNode', expression=N('BinaryOperationNode', left=V('i%d' % k), operator='==', right=I(which)),
                  block=block([N('AssignmentNode', variable_access=V('h%d' % k), expression=V('e%d' % k)), sel] + use),
                  elif_list=N('ElIfListNode', children=[]), else_clause=None),
                N('AssignmentNode', variable_access=V('i%d' % k), expression=N('BinaryOperationNode', left=V('i%d' % k), operator='+', right=I(1)))]
        stmts.append(N('ForEachNode', instance_variable_name='e%d' % k, set_variable_name='all%d' % k, block=block(body)))
    stmts.append(N('ReturnNode', expression=V('acc')))
    return N('BodyNode', block=block(stmts))


def run_chains(case, res=None):
    ast = chain_program(case)
    text = text_of(ast)
    info = dict(case, text=text)
    domain, w, _real = build(case['pop'])
    # does a pick start from an instance whose first partner leads nowhere while a later one does?
    try:
        want = Evaluator(w).run_body(ast)
    except Discard as d:
        if res is not None:
            res.discarded['chains: ' + d.reason] += 1
        return
    try:
        with TimeLimit(20):
            got = interpret.run_function(domain, 'check', text, {})
    except TimeLimit.Expired:
        raise Violation('interpreter-does-not-terminate', info, 'no result within 20 s')
    except Exception as e:
        raise Violation('interpreter-exception:' + exc_bucket(e), info, '%r\n%s' % (e, text))
    real, back = compare_population(domain, w.sh, info, 'chains')
    if not value_eq(got, want, back):
        raise Violation('return-value:chains', info, 'returned %r, reference %r\n%s' % (got, want, text))
    if res is not None:
        res.case([text, case['pop']], want not in (0, None), classes=['compared-chains'])


def selftest():
    from .oalgen import N, block
    w = World(SCHEMA)
    a = w.create('A', {'n': 5})
    b1 = w.create('B', {'n': 1}); b2 = w.create('B', {'n': 2})
    w.sh.relate(b1, a, 1); w.sh.relate(b2, a, 1)
    V = lambda n: N('VariableAccessNode', variable_name=n)
    prog = N('BodyNode', block=block([
        N('SelectFromNode', cardinality='any', variable_name='a', key_letter='A'),
        N('SelectRelatedWhereNode', cardinality='many', variable_name='bs', handle=V('a'),
          navigation_chain=N('NavigationListNode', children=[N('NavigationStepNode', key_letter='B', rel_id='R1', phrase='')]),
          where_clause=N('BinaryOperationNode', left=N('FieldAccessNode', handle=N('SelectedAccessNode'), name='n'),
                         operator='>', right=N('IntegerNode', value='1'))),
        N('AssignmentNode', variable_access=V('t'), expression=N('IntegerNode', value='0')),
        N('ForEachNode', instance_variable_name='e', set_variable_name='bs', block=block([
            N('AssignmentNode', variable_access=V('t'),
              expression=N('BinaryOperationNode', left=V('t'), operator='+', right=N('FieldAccessNode', handle=V('e'), name='n')))])),
        N('ReturnNode', expression=N('BinaryOperationNode', left=V('t'), operator='*',
                                     right=N('UnaryOperationNode', operator='cardinality', operand=V('bs'))))]))
    assert Evaluator(w).run_body(prog) == 2
    assert a.vals['Id'] == 1 and b2.vals['Id'] == 3


def run(ctx):
    res = Res()

    def body(case):
        try:
            run_case(case, res)
        except Violation:
            raise
        except Exception as e:
            raise Violation('harness-exception:' + exc_bucket(e), case, repr(e))

    hyp_run(ctx, res, cases(ctx.pick(12, 40), ctx.pick(3, 5)), body, ctx.pick(2500, 8000), label='programs')

    def lbody(case):
        try:
            run_linked(case, res)
        except Violation:
            raise
        except Exception as e:
            raise Violation('harness-exception:' + exc_bucket(e), case, repr(e))

    hyp_run(ctx, res, linked_cases(), lbody, ctx.pick(300, 3000), label='linked')

    def cbody(case):
        try:
            run_chains(case, res)
        except Violation:
            raise
        except Exception as e:
            raise Violation('harness-exception:' + exc_bucket(e), case, repr(e))

    hyp_run(ctx, res, chain_cases(), cbody, ctx.pick(300, 3000), label='chains')
    total = res.evaluations + sum(res.discarded.values())
    if total and sum(res.discarded.values()) > 0.4 * total:
        from .build import HarnessError
        raise HarnessError('more than 40%% of the programs were discarded by the reference: %r' % dict(res.discarded))
    return res


def replay(case):
    if case.get('chains'):
        run_chains(case)
    elif case.get('linked'):
        run_linked(case)
    else:
        run_case(case)
