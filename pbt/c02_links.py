"""C02 - links stay symmetric, bounded and atomic through any operation history."""
import itertools

from hypothesis import strategies as st

from . import gen_schema
from .core import Violation, hyp_run, loop_run, Res, exc_bucket, sha
from .machine import Runner
from .gen_schema import Schema

PROPERTY = 'C02'
RULE = ('histories of new / relate / unrelate / delete calls (both argument orders, with/without phrase, int and '
        "'Rn' ids, None arguments, wrong phrases, unknown ids, repeated deletes) applied to a real MetaModel and to "
        'a plain relational shadow; after EVERY call the instance pools, both-direction navigation of every '
        'association (order included) and every attribute read are compared, rejected calls must raise the '
        'documented exception and leave that state unchanged. (a) exhaustive: every history up to the stated '
        'length over a fixed alphabet of concrete calls on six fixed schemas (1:1, 1:M, M:1 conditional, '
        'reflexive with phrases, association class, sub/supertype) with two instances per class; (b) Hypothesis: '
        'generated schemas (shape grammar of gen_schema) x histories of 10-60 calls over <= 4 instances per class. '
        'non-trivial = history has >= 1 rejected call and >= 1 accepted relate on an association that is not 1:1; '
        'distinct = by (schema, history).')
ASSUMPTIONS = [
    'relate/unrelate are only called with live instances or None (a deleted handle is a caller error the '
    'property does not list among the rejected calls)',
    'a referential attribute shared by several associations may read through any of the linked ones',
    'generated reflexive associations have two distinct phrases, so direction is never ambiguous',
]


def A(rel, shape, src, sk, smany, scond, sp, tgt, tk, tcond, tp):
    return {'rel': rel, 'shape': shape, 'src': src, 'src_keys': sk, 'src_many': smany, 'src_cond': scond,
            'src_phrase': sp, 'tgt': tgt, 'tgt_keys': tk, 'tgt_many': False, 'tgt_cond': tcond, 'tgt_phrase': tp}


FIXED = {
    'one2one': {'classes': [{'name': 'A', 'attrs': [['Id', 'UNIQUE_ID']]},
                            {'name': 'B', 'attrs': [['Id', 'UNIQUE_ID'], ['A_Id', 'UNIQUE_ID']]}],
                'assocs': [A(1, 'simple', 'B', ['A_Id'], False, True, '', 'A', ['Id'], True, '')],
                'uniques': [{'cls': 'A', 'name': 'I1', 'attrs': ['Id']}]},
    'one2many': {'classes': [{'name': 'A', 'attrs': [['Id', 'UNIQUE_ID']]},
                             {'name': 'B', 'attrs': [['Id', 'UNIQUE_ID'], ['A_Id', 'UNIQUE_ID']]}],
                 'assocs': [A(2, 'simple', 'B', ['A_Id'], True, True, '', 'A', ['Id'], False, '')],
                 'uniques': [{'cls': 'A', 'name': 'I1', 'attrs': ['Id']}]},
    'many2one_int': {'classes': [{'name': 'A', 'attrs': [['Nr', 'INTEGER'], ['Name', 'STRING']]},
                                 {'name': 'B', 'attrs': [['Id', 'UNIQUE_ID'], ['A_Nr', 'INTEGER'], ['A_Name', 'STRING']]}],
                     'assocs': [A(3, 'simple', 'B', ['A_Nr', 'A_Name'], True, False, '', 'A', ['Nr', 'Name'], True, '')],
                     'uniques': [{'cls': 'A', 'name': 'I1', 'attrs': ['Nr', 'Name']}]},
    'reflexive': {'classes': [{'name': 'P', 'attrs': [['Id', 'UNIQUE_ID'], ['Prev_Id', 'UNIQUE_ID']]}],
                  'assocs': [A(4, 'reflexive', 'P', ['Prev_Id'], False, True, 'prev', 'P', ['Id'], True, 'next')],
                  'uniques': [{'cls': 'P', 'name': 'I1', 'attrs': ['Id']}]},
    'assoc': {'classes': [{'name': 'X', 'attrs': [['Id', 'UNIQUE_ID']]},
                          {'name': 'Y', 'attrs': [['Id', 'UNIQUE_ID']]},
                          {'name': 'L', 'attrs': [['X_Id', 'UNIQUE_ID'], ['Y_Id', 'UNIQUE_ID']]}],
              'assocs': [A(5, 'assoc', 'L', ['X_Id'], True, True, '', 'X', ['Id'], False, ''),
                         A(5, 'assoc', 'L', ['Y_Id'], False, True, '', 'Y', ['Id'], False, '')],
              'uniques': [{'cls': 'X', 'name': 'I1', 'attrs': ['Id']}]},
    'subsuper': {'classes': [{'name': 'S', 'attrs': [['Id', 'UNIQUE_ID']]},
                             {'name': 'T1', 'attrs': [['Id', 'UNIQUE_ID']]},
                             {'name': 'T2', 'attrs': [['Id', 'UNIQUE_ID']]}],
                 'assocs': [A(6, 'subsuper', 'T1', ['Id'], False, True, '', 'S', ['Id'], False, ''),
                            A(6, 'subsuper', 'T2', ['Id'], False, True, '', 'S', ['Id'], False, '')],
                 'uniques': [{'cls': 'S', 'name': 'I1', 'attrs': ['Id']}]},
    # one referential attribute formalising two associations; identifying values 0 (the default) and 5
    'shared': {'classes': [{'name': 'P', 'attrs': [['Nr', 'INTEGER']]},
                           {'name': 'Q', 'attrs': [['Nr', 'INTEGER']]},
                           {'name': 'C', 'attrs': [['Id', 'UNIQUE_ID'], ['Ref', 'INTEGER']]}],
               'assocs': [A(7, 'simple', 'C', ['Ref'], True, True, '', 'P', ['Nr'], True, ''),
                          A(8, 'simple', 'C', ['Ref'], True, True, '', 'Q', ['Nr'], True, '')],
               'uniques': [{'cls': 'P', 'name': 'I1', 'attrs': ['Nr']}, {'cls': 'Q', 'name': 'I1', 'attrs': ['Nr']}]},
}

FIXED['assoc2'] = FIXED['assoc']

# initial instances (class names) and the alphabet of concrete calls per fixed schema;
# indices refer to creation order
FIXED_INIT = {
    'one2one': ['A', 'A', 'B', 'B'],
    'one2many': ['A', 'A', 'B', 'B'],
    'many2one_int': [['A', {'Nr': 1, 'Name': 'a'}], ['A', {'Nr': 2, 'Name': "b'"}], 'B', 'B'],
    'reflexive': ['P', 'P', 'P'],
    'assoc': ['X', 'X', 'Y', 'L', 'L'],
    'assoc2': ['X', 'Y', 'Y', 'L', 'L'],
    'subsuper': ['S', 'S', 'T1', 'T2', 'T1'],
    'shared': [['P', {'Nr': 0}], ['P', {'Nr': 5}], ['Q', {'Nr': 0}], ['Q', {'Nr': 5}], 'C', 'C'],
}


# calls made before the enumerated history starts: one X with two link instances, the first of them linked to a Y
FIXED_PROLOGUE = {'assoc2': [['relate', 3, 0, 5, None, False], ['relate', 3, 1, 5, None, False], ['relate', 4, 0, 5, None, False]]}


def fixed_alphabet(name):
    R, U, D = 'relate', 'unrelate', 'delete'
    if name == 'assoc2':
        return [[R, 4, 2, 5, None, False], [R, 4, 1, 5, None, False], [R, 3, 2, 5, None, False], [R, 2, 4, 5, '', True],
                [U, 3, 1, 5, None, False], [U, 4, 0, 5, None, False], [U, 4, 2, 5, None, False], [U, 0, 3, 5, None, True],
                [R, 0, 1, 5, None, False],
                [D, 3, True], [D, 0, True], [D, 1, False], [D, 4, True], ['new', 'L']]
    if name in ('one2one', 'one2many', 'many2one_int'):
        rel = FIXED[name]['assocs'][0]['rel']
        ops = []
        for b in (2, 3):
            for a in (0, 1):
                ops.append([R, b, a, rel, None, False])
        ops += [[R, 0, 2, rel, '', True],                 # inverted argument order
                [U, 2, 0, rel, None, False], [U, 3, 0, rel, '', True], [U, 0, 3, rel, None, False],
                [U, 2, 1, rel, None, False],
                [D, 0, True], [D, 2, False],
                [R, 2, 0, rel, 'nope', False],            # unknown phrase
                [R, 2, 0, rel + 90, None, False],         # unknown association
                [R, 2, 3, rel, None, False],              # wrong kinds
                [R, None, 0, rel, None, False],
                ['new', 'B']]
        return ops
    if name == 'reflexive':
        ops = []
        for i, j in ((0, 1), (1, 2), (2, 0), (1, 0), (0, 0)):
            ops.append([R, i, j, 4, 'prev', False])
        ops += [[R, 0, 1, 4, 'next', True], [R, 2, 1, 4, 'next', False],
                [U, 0, 1, 4, 'prev', False], [U, 1, 0, 4, 'next', False], [U, 1, 2, 4, 'prev', True],
                [U, 1, 0, 4, 'prev', False],
                [R, 0, 1, 4, None, False],                # phrase missing
                [R, 0, 1, 4, 'sideways', False],
                [D, 1, True], [D, 0, False], ['new', 'P']]
        return ops
    if name == 'assoc':
        ops = [[R, 3, 0, 5, None, False], [R, 3, 1, 5, None, False], [R, 4, 0, 5, '', False],
               [R, 0, 4, 5, None, True],
               [R, 3, 2, 5, None, False], [R, 4, 2, 5, None, False], [R, 2, 3, 5, None, False],
               [U, 3, 0, 5, None, False], [U, 3, 2, 5, None, False], [U, 0, 4, 5, None, False],
               [U, 4, 2, 5, None, True],
               [R, 0, 2, 5, None, False],                 # X-Y directly: not a link
               [D, 3, True], [D, 0, True], [D, 2, False], ['new', 'L']]
        return ops
    if name == 'subsuper':
        ops = [[R, 2, 0, 6, None, False], [R, 0, 3, 6, None, False], [R, 4, 0, 6, None, False],
               [R, 2, 1, 6, None, False], [R, 3, 1, 6, '', True], [R, 4, 1, 6, None, False],
               [U, 2, 0, 6, None, False], [U, 0, 3, 6, None, False], [U, 4, 1, 6, None, False],
               [U, 3, 1, 6, None, False],
               [R, 2, 3, 6, None, False],                 # subtype to subtype
               [D, 0, True], [D, 2, True], [D, 3, False], [R, 2, 0, 'x', None, False]]
        ops[-1] = [R, 2, 0, 60, None, False]
        return ops
    if name == 'shared':
        ops = [[R, 4, 0, 7, None, False], [R, 4, 1, 7, None, False], [R, 4, 2, 8, None, False], [R, 4, 3, 8, '', True],
               [R, 5, 0, 7, None, False], [R, 2, 5, 8, None, False],
               [U, 4, 0, 7, None, False], [U, 4, 1, 7, None, False], [U, 4, 2, 8, None, False], [U, 3, 4, 8, None, False],
               [R, 4, 2, 7, None, False],                 # Q is not on R7
               [D, 0, True], [D, 2, False], [D, 4, True], ['new', 'C']]
        return ops
    raise KeyError(name)


def run_history(schema_js, init, ops, case, res=None, via_sql=False):
    r = Runner(schema_js, case=case, via_sql=via_sql)
    for it in init:
        if isinstance(it, (list, tuple)):
            r.new(it[0], it[1])
        else:
            r.new(it)
    r.compare()
    rejected = accepted_non11 = 0
    kinds = set()
    for op in ops:
        op = normalise(r, op)
        if op is None:
            continue
        out = r.apply(op)
        if out == 'rejected':
            rejected += 1
            kinds.add('rejected-' + op[0])
        if out == 'ok' and op[0] == 'relate':
            for a in r.schema.assocs:
                if a['rel'] == op[3] and (a['src_many'] or a.get('shape') in ('assoc', 'subsuper', 'reflexive')):
                    accepted_non11 += 1
                    break
    return rejected, accepted_non11, kinds, r


def normalise(r, op):
    """Map generated indices onto existing instances; relate/unrelate only take live ones."""
    op = list(op)
    if op[0] in ('relate', 'unrelate'):
        live = [k for k, rec in enumerate(r.sh.recs) if rec.alive]
        if not live:
            return None
        for pos in (1, 2):
            if op[pos] is not None:
                k = op[pos] % len(r.sh.recs)
                if not r.sh.recs[k].alive:
                    k = live[op[pos] % len(live)]
                op[pos] = k
        return op
    if op[0] == 'delete':
        if not r.sh.recs:
            return None
        op[1] = op[1] % len(r.sh.recs)
        return op
    if op[0] == 'new':
        # keep pools small so collisions stay frequent
        cname = op[1]
        if len(r.sh.live(cname)) >= 4:
            return None
        return op
    return op


# -- Hypothesis histories ---------------------------------------------------------

@st.composite
def history_cases(draw):
    schema_js = draw(gen_schema.schemas(max_classes=3, max_assocs=3, max_extra_attrs=1))
    sc = Schema(schema_js)
    names = [c['name'] for c in sc.classes]
    init = []
    for cn in names:
        for _ in range(draw(st.integers(1, 2))):
            init.append([cn, draw(plain_values(sc, cn))])
    # targeted relate/unrelate ops: pick an association and orient args at random
    ops = []
    n = draw(st.integers(10, 60))
    phr = [a['src_phrase'] for a in sc.assocs] + [a['tgt_phrase'] for a in sc.assocs] + ['', 'zz']
    for _ in range(n):
        k = draw(st.integers(0, 9))
        if k <= 4:
            a = draw(st.sampled_from(sc.assocs))
            fwd = draw(st.booleans())
            good = draw(st.integers(0, 7)) > 0
            phrase = (a['src_phrase'] if fwd else a['tgt_phrase']) if good else draw(st.sampled_from(phr))
            if phrase == '' and draw(st.booleans()):
                phrase = None
            ops.append(['relate' if k <= 2 else 'unrelate',
                        ['cls', a['src'] if fwd else a['tgt'], draw(st.integers(0, 5))],
                        ['cls', a['tgt'] if fwd else a['src'], draw(st.integers(0, 5))],
                        a['rel'] if draw(st.integers(0, 9)) else a['rel'] + 77, phrase, draw(st.booleans())])
        elif k == 5:
            ops.append([draw(st.sampled_from(['relate', 'unrelate'])), draw(st.integers(0, 20)),
                        draw(st.one_of(st.none(), st.integers(0, 20))),
                        draw(st.sampled_from([a['rel'] for a in sc.assocs])), draw(st.sampled_from(phr)),
                        draw(st.booleans())])
        elif k <= 7:
            ops.append(['delete', draw(st.integers(0, 20)), draw(st.booleans())])
        else:
            cn = draw(st.sampled_from(names))
            ops.append(['new', cn, draw(plain_values(sc, cn))])
    return {'schema': schema_js, 'init': init, 'ops': ops, 'via_sql': draw(st.booleans())}


@st.composite
def plain_values(draw, sc, cname):
    vals = {}
    for n, t in sc.plain_attrs(cname):
        if t.upper() == 'UNIQUE_ID':
            continue                    # generator-provided
        if draw(st.booleans()):
            vals[n] = draw(gen_schema.small_key_value(t, with_null=True))
    return vals


def resolve_cls_refs(r, op):
    """['cls', name, k] -> index of the k-th (mod) live instance of that class."""
    op = list(op)
    for pos in (1, 2):
        if isinstance(op[pos], list) and op[pos] and op[pos][0] == 'cls':
            live = [rec.idx for rec in r.sh.live(op[pos][1])]
            if not live:
                return None
            op[pos] = live[op[pos][2] % len(live)]
    return op


def body_factory(res):
    def body(case):
        schema_js, init, ops = case['schema'], case['init'], case['ops']
        try:
            r = Runner(schema_js, case=case, via_sql=case.get('via_sql', False))
            for it in init:
                r.new(it[0], it[1])
            r.compare()
            rejected = acc = 0
            classes = set()
            for op in ops:
                if op[0] in ('relate', 'unrelate'):
                    op = resolve_cls_refs(r, op)
                    if op is None:
                        continue
                op = normalise(r, op)
                if op is None:
                    continue
                out = r.apply(op)
                if out == 'rejected':
                    rejected += 1
                    classes.add('rejected-' + op[0])
                elif out == 'ok' and op[0] == 'relate':
                    classes.add('accepted-relate')
                    for a in r.schema.assocs:
                        if a['rel'] == op[3] and (a['src_many'] or a.get('shape') != 'simple'):
                            acc += 1
                            break
                elif out == 'ok' and op[0] == 'delete':
                    classes.add('accepted-delete')
            for a in schema_js['assocs']:
                classes.add('shape-' + a['shape'])
            nt = rejected >= 1 and acc >= 1
            if rejected:
                classes.add('has-rejected-call')
            res.case(case, nt, sample=case if nt else None, classes=sorted(classes))
        except Violation:
            raise
        except Exception as e:
            raise Violation('harness-or-api-exception:' + exc_bucket(e), case, repr(e))
    return body


def selftest():
    from .shadow import Shadow, Rejected
    sh = Shadow(FIXED['one2many'])
    a0 = sh.new('A', {'Id': 1}); a1 = sh.new('A', {'Id': 2})
    b0 = sh.new('B', {'Id': 3}); b1 = sh.new('B', {'Id': 4})
    assert sh.relate(b0, a0, 2) == 'linked' and sh.relate(a0, b1, 2) == 'linked'
    assert sh.relate(b0, a0, 2) == 'noop'
    try:
        sh.relate(b0, a1, 2); assert False
    except Rejected as r:
        assert r.kind == 'RelateException'
    assert sh.attr(b0, 'A_Id') == 1 and sh.nav([a0], 'B', 2) == [b0, b1]
    try:
        sh.unrelate(b1, a1, 2); assert False
    except Rejected as r:
        assert r.kind == 'UnrelateException'
    try:
        sh.relate(b0, b1, 2); assert False
    except Rejected as r:
        assert r.kind == 'UnknownLinkException'
    sh.delete(a0)
    assert sh.attr(b0, 'A_Id') is None and sh.partners(0, b1, True) == []
    sh2 = Shadow(FIXED['assoc'])
    x = sh2.new('X', {'Id': 1}); y = sh2.new('Y', {'Id': 2}); l = sh2.new('L', {})
    sh2.relate(l, x, 5); sh2.relate(y, l, 5)
    assert sh2.nav1(x, 'Y', 5) == [y] and sh2.nav1(y, 'X', 5) == [x]


def run(ctx):
    res = Res()
    maxlen = ctx.pick(3, 5)

    def fixed_cases():
        idx = 0
        for name in sorted(FIXED):
            alpha = fixed_alphabet(name)
            for n in range(1, maxlen + 1):
                for seq in itertools.product(range(len(alpha)), repeat=n):
                    idx += 1
                    if idx % ctx.nshards != ctx.shard:
                        continue
                    yield {'fixed': name, 'ops': [alpha[i] for i in seq]}

    def fixed_body(case):
        name = case['fixed']
        try:
            rej, acc, kinds, _r = run_history(FIXED[name], FIXED_INIT[name], FIXED_PROLOGUE.get(name, []) + case['ops'], case)
        except Violation:
            raise
        except Exception as e:
            raise Violation('harness-or-api-exception:' + exc_bucket(e), case, repr(e))
        nt = rej >= 1 and acc >= 1
        res.case(case, nt, sample=case if (nt and len(case['ops']) >= 3) else None,
                 classes=['fixed-' + name] + (['has-rejected-call'] if rej else []))

    loop_run(ctx, res, fixed_cases(), fixed_body)
    for name in sorted(FIXED):
        k = len(fixed_alphabet(name))
        res.exhaustive_parts.append('schema %s: all histories of length 1..%d over %d concrete calls: %d'
                                    % (name, maxlen, k, sum(k ** n for n in range(1, maxlen + 1))))
    hyp_run(ctx, res, history_cases(), body_factory(res), ctx.pick(250, 1500), label='histories')
    return res


MIN_FRACTIONS = {'has-rejected-call': 0.15}


def replay(case):
    if 'fixed' in case:
        name = case['fixed']
        run_history(FIXED[name], FIXED_INIT[name], FIXED_PROLOGUE.get(name, []) + case['ops'], case)
    else:
        body_factory(Res())(case)
