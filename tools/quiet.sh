#!/bin/bash
# tools/quiet.sh "<checks>" "<seeds>" : run quick checks on the unchanged tree for several seeds, 5 in parallel, evidence to a scratch dir
cd "$(dirname "$0")/.."
out=$(mktemp -d /tmp/quiet-XXXXXX)
for c in $1; do for s in $2; do echo "$c $s"; done; done | xargs -P 5 -L 1 bash -c 'c=$0; s=$1; r=$(VERIF_SEED=$s VERIF_OUT='$out'/$c-$s timeout 1500 ./check $c 2>&1 | grep -v "^KNOWN" | tail -3 | tr "\n" " " | cut -c1-300); echo "$c seed=$s rc=$? :: $r"'
rm -rf $out
