#!/bin/bash
# Runs the repository's test-suite on a scratch copy of /repo WITHOUT the git-ignored PLY table files, so that
# grammar / lexer edits (which stale tables would hide) are really exercised.  Scratch copy is removed afterwards.
set -u
work=$(mktemp -d /tmp/suite-XXXXXX)
trap 'rm -rf "$work"' EXIT
rsync -a --exclude .git --exclude '__*tab.py' --exclude __pycache__ "${VERIF_REPO:-/repo}/" "$work/repo/"
cat > "$work/run.py" <<PY
import sys, os
sys.meta_path[:] = [f for f in sys.meta_path if 'editable' not in type(f).__module__ and 'editable' not in getattr(f, '__name__', '') and 'editable' not in (getattr(f, '__module__', '') or '')]
sys.path[:] = [p for p in sys.path if os.path.realpath(p or '.') != '/repo']
sys.path.insert(0, '$work/repo')
os.chdir('$work/repo')
import xtuml, bridgepoint
assert xtuml.__file__.startswith('$work'), xtuml.__file__
import pytest
sys.exit(pytest.main(['-q', '-p', 'no:cacheprovider', 'tests']))
PY
/venv/bin/python "$work/run.py" </dev/null 2>&1 | tail -3
ls "$work/repo/bridgepoint/" | grep tab
