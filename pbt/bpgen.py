"""Abstract class-diagram generator and edit scripts for the BridgePoint synthesiser (tape driven)."""
import copy

from .oalsyn import Tape
from . import bpmodel

CLASS_NAMES = ['Dog', 'Owner', 'Leash', 'Kennel', 'Vet', 'Visit', 'Toy', 'Collar']
KLS = ['DOG', 'OWN', 'LSH', 'KNL', 'VET', 'VIS', 'TOY', 'CLR']
ATTRS = ['Name', 'Age', 'Weight', 'Tag', 'Active', 'Code', 'Rank', 'Note', 'Level', 'Size']
SUPPORTED = ['integer', 'string', 'boolean', 'real', 'unique_id']
UNSUPPORTED = ['inst_ref<Object>', 'date', 'state<State_Model>', 'inst_ref_set<Object>', 'timestamp', 'void']
PHRASES = ['owns', 'is owned by', 'precedes', 'follows', 'knows', 'is known by']


def gen_diagram(ints, with_callables=False):
    t = Tape(ints)
    D = {'packages': [{'name': 'Top', 'parent': None}], 'components': [{'name': 'Comp', 'parent': ['pkg', 0]}],
         'types': [], 'classes': [], 'rels': [], 'functions': [], 'ees': [], 'constants': []}
    # containers: a package inside the component, optionally nested deeper, optionally a second component, and a
    # package outside every component
    D['packages'].append({'name': 'Classes', 'parent': ['comp', 0]})          # 1
    homes = [['pkg', 1], ['comp', 0]]
    if t.flag():
        D['packages'].append({'name': 'Deep', 'parent': ['pkg', 1]})
        homes.append(['pkg', len(D['packages']) - 1])
    outside = []
    if t.flag():
        D['packages'].append({'name': 'Outside', 'parent': ['pkg', 0]})
        outside.append(['pkg', len(D['packages']) - 1])
    if t.pick(3) == 0:
        D['components'].append({'name': 'Other', 'parent': ['pkg', 0]})
        outside.append(['comp', 1])
    if t.pick(3) == 0:
        # a component nested in the component (directly or through one of its packages): what it holds is inside both
        D['components'].append({'name': 'Inner', 'parent': t.choice([['comp', 0], ['pkg', 1]])})
        ci = len(D['components']) - 1
        D['packages'].append({'name': 'InnerPkg', 'parent': ['comp', ci]})
        homes += [['pkg', len(D['packages']) - 1], ['comp', ci]]
    # data types
    tnames = []
    for k in range(t.pick(4)):
        parent = t.choice(homes + outside + [['pkg', 0]])
        if t.flag():
            D['types'].append({'name': 'Enum%d' % k, 'kind': 'enum', 'parent': parent,
                               'enumerators': ['E%d_%d' % (k, j) for j in range(2 + t.pick(3))]})
        else:
            base = t.choice(SUPPORTED + tnames + (['date', 'inst_ref<Object>'] if t.pick(4) == 0 else []))
            D['types'].append({'name': 'Udt%d' % k, 'kind': 'udt', 'base': base, 'parent': parent})
        tnames.append(D['types'][-1]['name'])

    def new_class(parent=None):
        ci = len(D['classes'])
        attrs = []
        names = list(ATTRS)
        n = 1 + t.pick(4)
        # first attribute: always a supported identifying attribute - now and then typed by a user type with a supported base
        # (what refers to it is declared with the base type)
        idty = t.choice(['unique_id', 'integer', 'string'])
        udts = [n for n in tnames if n.startswith('Udt') and bpmodel.resolve_core(D, n) in ('INTEGER', 'STRING', 'UNIQUE_ID')]
        if udts and t.pick(3) == 0:
            idty = t.choice(udts)
        attrs.append({'name': 'Id' if t.flag() else names.pop(t.pick(len(names))), 'type': idty})
        for _ in range(n):
            nm = names.pop(t.pick(len(names)))
            k = t.pick(8)
            if k <= 3:
                a = {'name': nm, 'type': t.choice(SUPPORTED)}
            elif k == 4 and tnames:
                a = {'name': nm, 'type': t.choice(tnames)}
            elif k == 5:
                a = {'name': nm, 'type': t.choice(UNSUPPORTED)}
            elif k == 6:
                a = {'name': nm, 'type': t.choice(SUPPORTED), 'derived': 'self.%s = 1;' % nm}
            else:
                a = {'name': nm, 'type': t.choice(SUPPORTED)}
            attrs.append(a)
        # row order of attributes vs modelled order is varied by the renderer; modelled order is this list
        ids = [[attrs[0]['name']]]
        plain_supported = [a['name'] for a in attrs[1:] if a.get('derived') is None and a['type'] in SUPPORTED]
        if plain_supported and t.flag():
            if t.flag():
                ids[0].append(plain_supported[0])
            else:
                ids.append([plain_supported[0]])
        if len(plain_supported) > 1 and t.pick(4) == 0:
            ids.append([plain_supported[1], attrs[0]['name']])
        D['classes'].append({'name': CLASS_NAMES[ci % len(CLASS_NAMES)] + ('' if ci < len(CLASS_NAMES) else str(ci)),
                             'kl': KLS[ci % len(KLS)] + ('' if ci < len(KLS) else str(ci)), 'numb': ci + 1,
                             'parent': parent if parent is not None else t.choice(homes), 'attrs': attrs, 'ids': ids, 'ops': []})
        return ci

    for _ in range(2 + t.pick(3)):
        new_class()
    if outside and t.flag():
        new_class(t.choice(outside))
    inside = [i for i, c in enumerate(D['classes']) if bpmodel.contained_in(D, c['parent'], ['comp', 0])]
    outs = [i for i in range(len(D['classes'])) if i not in inside]

    def add_refs(ci, to_ci, oid, tag):
        names = []
        have = set(a['name'] for a in D['classes'][ci]['attrs'])
        for tn in D['classes'][to_ci]['ids'][oid]:
            # referential attributes are named independently of what they refer to (BridgePoint lets the modeller
            # rename them), so their alphabetical order need not follow that of the identifying attributes
            nm = '%s%s_%s' % (t.choice(['', 'zz', 'aa', 'Mm']), tag, tn) if t.flag() else '%s_%s' % (tag, tn)
            while nm in have:
                nm += 'x'
            have.add(nm)
            pos = t.pick(len(D['classes'][ci]['attrs']) + 1)
            D['classes'][ci]['attrs'].insert(pos, {'name': nm, 'ref': True})
            names.append(nm)
        return names

    numb = 0
    for _ in range(1 + t.pick(4)):
        numb += 1 + t.pick(3)
        pool = inside if (t.pick(5) or len(outs) < 2) else outs
        if len(pool) < 1:
            continue
        kind = t.choice(['simple', 'simple', 'reflexive', 'linked', 'linked-reflexive', 'subsuper'])
        if kind in ('simple', 'reflexive'):
            part = t.choice(pool)
            form = part if kind == 'reflexive' else t.choice([c for c in pool if c != part] or [part])
            oid = t.pick(len(D['classes'][part]['ids']))
            refs = add_refs(form, part, oid, 'r%d' % numb)
            refl = form == part
            D['rels'].append({'numb': numb, 'kind': 'simple', 'part': part, 'form': form, 'oid': oid, 'refs': refs,
                              'part_mult': False, 'part_cond': t.flag(), 'part_phrase': t.choice(PHRASES[0::2]) if (refl or t.flag()) else '',
                              'form_mult': t.flag(), 'form_cond': t.flag(), 'form_phrase': t.choice(PHRASES[1::2]) if (refl or t.flag()) else ''})
        elif kind in ('linked', 'linked-reflexive'):
            one = t.choice(pool)
            oth = one if kind == 'linked-reflexive' else t.choice([c for c in pool if c != one] or [one])
            link = new_class(D['classes'][one]['parent'])
            (inside if one in inside else outs).append(link)
            o1, o2 = t.pick(len(D['classes'][one]['ids'])), t.pick(len(D['classes'][oth]['ids']))
            r1 = add_refs(link, one, o1, 'one%d' % numb)
            r2 = add_refs(link, oth, o2, 'oth%d' % numb)
            if t.flag():
                D['classes'][link]['ids'][0] = r1 + r2
            refl = one == oth
            D['rels'].append({'numb': numb, 'kind': 'linked', 'one': one, 'oth': oth, 'link': link, 'one_oid': o1, 'oth_oid': o2,
                              'one_refs': r1, 'oth_refs': r2, 'link_mult': t.flag(),
                              'one_mult': t.flag(), 'one_cond': t.flag(), 'one_phrase': t.choice(PHRASES[0::2]) if (refl or t.flag()) else '',
                              'oth_mult': t.flag(), 'oth_cond': t.flag(), 'oth_phrase': t.choice(PHRASES[1::2]) if (refl or t.flag()) else ''})
        else:
            sup = t.choice(pool)
            subs = []
            for _k in range(1 + t.pick(2)):
                sub = new_class(D['classes'][sup]['parent'])
                (inside if sup in inside else outs).append(sub)
                refs = add_refs(sub, sup, 0, 'sup')
                if t.flag():
                    D['classes'][sub]['ids'][0] = refs
                subs.append({'cls': sub, 'refs': refs})
            D['rels'].append({'numb': numb, 'kind': 'subsuper', 'super': sup, 'subs': subs, 'oid': 0})
    return D


# -- edit scripts -----------------------------------------------------------------------------------------------------

EDITS = ['rename-ref-attr', 'rename-attr', 'retype-attr', 'reorder-attrs', 'toggle-mult', 'toggle-cond', 'change-phrase', 'add-enumerator',
         'reorder-enumerators', 'add-udt', 'move-class', 'add-derived', 'remove-derived', 'add-attr', 'add-unsupported']


def apply_edit(D, t):
    """Apply one D-level edit chosen from the tape; returns a short description (or None when not applicable)."""
    kind = t.choice(EDITS)
    classes = D['classes']
    if not classes:
        return None
    ci = t.pick(len(classes))
    c = classes[ci]
    plain = [a for a in c['attrs'] if not a.get('ref')]
    if kind == 'rename-ref-attr':
        refs = [a for a in c['attrs'] if a.get('ref')]
        if not refs:
            return None
        a = t.choice(refs)
        old = a['name']
        new = t.choice(['Aa_', 'Zz_', 'To_', 'K']) + old
        if any(x['name'] == new for x in c['attrs']):
            return None
        a['name'] = new
        c['ids'] = [[new if n == old else n for n in i] for i in c['ids']]
        for r in D['rels']:
            for key in ('refs', 'one_refs', 'oth_refs'):
                if key in r and (r.get('form') == ci or r.get('link') == ci):
                    r[key] = [new if n == old else n for n in r[key]]
            for sub in r.get('subs', []):
                if sub['cls'] == ci:
                    sub['refs'] = [new if n == old else n for n in sub['refs']]
        return 'rename referential %s.%s' % (c['kl'], old)
    if kind == 'rename-attr' and plain:
        a = t.choice(plain)
        old, new = a['name'], a['name'] + '_rn'
        if any(x['name'] == new for x in c['attrs']):
            return None
        a['name'] = new
        if a.get('derived') is not None:
            a['derived'] = 'self.%s = 1;' % new
        c['ids'] = [[new if n == old else n for n in i] for i in c['ids']]
        return 'rename %s.%s' % (c['kl'], old)
    if kind == 'retype-attr' and plain:
        a = t.choice(plain)
        a['type'] = t.choice(bpgen_types(D))
        return 'retype %s.%s -> %s' % (c['kl'], a['name'], a['type'])
    if kind == 'reorder-attrs' and len(c['attrs']) > 1:
        i, j = t.pick(len(c['attrs'])), t.pick(len(c['attrs']))
        c['attrs'][i], c['attrs'][j] = c['attrs'][j], c['attrs'][i]
        return 'swap attributes %d,%d of %s' % (i, j, c['kl'])
    if kind in ('toggle-mult', 'toggle-cond', 'change-phrase') and D['rels']:
        r = t.choice(D['rels'])
        if r['kind'] == 'subsuper':
            return None
        ends = ['part', 'form'] if r['kind'] == 'simple' else ['one', 'oth']
        e = t.choice(ends)
        if kind == 'toggle-mult':
            if r['kind'] == 'simple' and e == 'part':
                return None             # the referred end of a formalised association stays single
            r[e + '_mult'] = not r[e + '_mult']
        elif kind == 'toggle-cond':
            r[e + '_cond'] = not r[e + '_cond']
        else:
            r[e + '_phrase'] = r[e + '_phrase'] + ' x' if r[e + '_phrase'] else 'new phrase'
        return '%s R%d %s' % (kind, r['numb'], e)
    enums = [x for x in D['types'] if x['kind'] == 'enum']
    if kind == 'add-enumerator' and enums:
        e = t.choice(enums)
        e['enumerators'].insert(t.pick(len(e['enumerators']) + 1), 'Added%d' % len(e['enumerators']))
        return 'add enumerator to %s' % e['name']
    if kind == 'reorder-enumerators' and enums:
        e = t.choice(enums)
        e['enumerators'].reverse()
        return 'reverse enumerators of %s' % e['name']
    if kind == 'add-udt':
        name = 'UdtNew%d' % len(D['types'])
        D['types'].append({'name': name, 'kind': 'udt', 'base': t.choice(bpgen_types(D)), 'parent': c['parent']})
        return 'add user type %s' % name
    if kind == 'move-class':
        homes = [['pkg', i] for i in range(len(D['packages']))] + [['comp', i] for i in range(len(D['components']))]
        # only classes without relationships move (a relationship across the component border cannot be extracted)
        if any(ci in rel_classes(r) for r in D['rels']):
            return None
        c['parent'] = t.choice(homes)
        return 'move %s' % c['kl']
    if kind == 'add-derived':
        name = 'Drv%d' % len(c['attrs'])
        c['attrs'].insert(t.pick(len(c['attrs']) + 1), {'name': name, 'type': t.choice(bpmodel.SUPPORTED_CORE), 'derived': 'self.%s = 1;' % name})
        return 'add derived %s.%s' % (c['kl'], name)
    if kind == 'remove-derived':
        ds = [a for a in c['attrs'] if a.get('derived') is not None and not any(a['name'] in i for i in c['ids'])]
        if not ds:
            return None
        c['attrs'].remove(ds[0])
        return 'remove derived %s.%s' % (c['kl'], ds[0]['name'])
    if kind in ('add-attr', 'add-unsupported'):
        name = 'New%d' % len(c['attrs'])
        ty = t.choice(bpgen_types(D)) if kind == 'add-attr' else t.choice(UNSUPPORTED)
        c['attrs'].insert(t.pick(len(c['attrs']) + 1), {'name': name, 'type': ty})
        return 'add %s.%s : %s' % (c['kl'], name, ty)
    return None


def bpgen_types(D):
    return SUPPORTED + [x['name'] for x in D['types']]


def rel_classes(r):
    if r['kind'] == 'simple':
        return [r['part'], r['form']]
    if r['kind'] == 'linked':
        return [r['one'], r['oth'], r['link']]
    return [r['super']] + [s['cls'] for s in r['subs']]


def edited(D, ints, max_edits=6):
    D = copy.deepcopy(D)
    t = Tape(ints)
    log = []
    for _ in range(1 + t.pick(max_edits)):
        d = apply_edit(D, t)
        if d:
            log.append(d)
    return D, log
