"""Typed, name-resolved OAL program generator over a fixed multi-class schema (DESIGN.md 2.4).

Programs are grown top-down from a choice tape with an environment (variable -> type, class, known
non-empty), so they are type-correct and definitely-assigned by construction; guards keep most of
them error-free, the reference evaluator discards the rest.
"""
from .oalgen import N, block
from .oalsyn import Tape


def A_(rel, shape, src, sk, smany, scond, sp, tgt, tk, tcond, tp):
    return {'rel': rel, 'shape': shape, 'src': src, 'src_keys': sk, 'src_many': smany, 'src_cond': scond,
            'src_phrase': sp, 'tgt': tgt, 'tgt_keys': tk, 'tgt_many': False, 'tgt_cond': tcond, 'tgt_phrase': tp}


SCHEMA = {
    'classes': [
        {'name': 'A', 'attrs': [['Id', 'UNIQUE_ID'], ['n', 'INTEGER'], ['s', 'STRING'], ['b', 'BOOLEAN'], ['r', 'REAL']]},
        {'name': 'B', 'attrs': [['Id', 'UNIQUE_ID'], ['n', 'INTEGER'], ['s', 'STRING'], ['A_Id', 'UNIQUE_ID']]},
        {'name': 'C', 'attrs': [['Id', 'UNIQUE_ID'], ['n', 'INTEGER'], ['A_Id', 'UNIQUE_ID']]},
        {'name': 'P', 'attrs': [['Id', 'UNIQUE_ID'], ['n', 'INTEGER'], ['Prev_Id', 'UNIQUE_ID']]},
        {'name': 'D', 'attrs': [['Id', 'UNIQUE_ID'], ['n', 'INTEGER'], ['s', 'STRING']]},
        {'name': 'L', 'attrs': [['A_Id', 'UNIQUE_ID'], ['D_Id', 'UNIQUE_ID'], ['n', 'INTEGER']]},
        {'name': 'S', 'attrs': [['Id', 'UNIQUE_ID'], ['n', 'INTEGER']]},
        {'name': 'T1', 'attrs': [['Id', 'UNIQUE_ID'], ['n', 'INTEGER']]},
        {'name': 'T2', 'attrs': [['Id', 'UNIQUE_ID'], ['s', 'STRING']]},
    ],
    'assocs': [
        A_(1, 'simple', 'B', ['A_Id'], True, True, '', 'A', ['Id'], True, ''),
        A_(2, 'simple', 'C', ['A_Id'], False, True, '', 'A', ['Id'], True, ''),
        A_(3, 'reflexive', 'P', ['Prev_Id'], False, True, 'prev', 'P', ['Id'], True, 'next'),
        A_(4, 'assoc', 'L', ['A_Id'], True, True, '', 'A', ['Id'], False, ''),
        A_(4, 'assoc', 'L', ['D_Id'], True, True, '', 'D', ['Id'], False, ''),
        A_(5, 'subsuper', 'T1', ['Id'], False, True, '', 'S', ['Id'], False, ''),
        A_(5, 'subsuper', 'T2', ['Id'], False, True, '', 'S', ['Id'], False, ''),
    ],
    'uniques': [{'cls': c, 'name': 'I1', 'attrs': ['Id']} for c in ('A', 'B', 'C', 'P', 'D', 'S')],
}

# navigation hops per class: (target class, rel, phrase, single-valued?)
HOPS = {
    'A': [('B', 1, '', False), ('C', 2, '', True), ('L', 4, '', False), ('D', 4, '', False)],
    'B': [('A', 1, '', True)],
    'C': [('A', 2, '', True)],
    'P': [('P', 3, 'prev', True), ('P', 3, 'next', True)],
    'D': [('L', 4, '', False), ('A', 4, '', False)],
    'L': [('A', 4, '', True), ('D', 4, '', True)],
    'S': [('T1', 5, '', True), ('T2', 5, '', True)],
    'T1': [('S', 5, '', True)],
    'T2': [('S', 5, '', True)],
}
# plain writable attributes per class and OAL type
ATTRS = {
    'A': [('n', 'int'), ('s', 'str'), ('b', 'bool'), ('r', 'real')],
    'B': [('n', 'int'), ('s', 'str')], 'C': [('n', 'int')], 'P': [('n', 'int')], 'D': [('n', 'int'), ('s', 'str')],
    'L': [('n', 'int')], 'S': [('n', 'int')], 'T1': [('n', 'int')], 'T2': [('s', 'str')],
}
REF_ATTRS = {'B': ['A_Id'], 'C': ['A_Id'], 'P': ['Prev_Id'], 'L': ['A_Id', 'D_Id']}
READABLE = dict((k, v + ([('Id', 'id')] if k not in ('L',) else [])) for k, v in ATTRS.items())
CLASSES = ['A', 'B', 'C', 'P', 'D', 'L', 'S', 'T1', 'T2']
# relate recipes: (from class, to class, rel, phrase, from-end-free-when-fresh, to needs: 'fresh'|'any')
RELATES = [
    ('B', 'A', 1, ''), ('A', 'B', 1, ''), ('C', 'A', 2, ''), ('P', 'P', 3, 'prev'), ('P', 'P', 3, 'next'),
    ('T1', 'S', 5, ''), ('S', 'T2', 5, ''), ('L', 'A', 4, ''), ('L', 'D', 4, ''),
]
INT_LIT = ['0', '1', '2', '3', '7', '10', '42']
STR_LIT = ['""', '"a"', '"b"', '"xy"', '"A b"']
REAL_LIT = ['0.5', '1.5', '2.0', '10.25']


class Env(object):
    def __init__(self, blocks=None, counter=None):
        self.blocks = blocks if blocks is not None else [{}]
        self.counter = counter if counter is not None else {'n': 0, 'stmts': 0}

    def push(self):
        self.blocks.append({})

    def pop(self):
        self.blocks.pop()

    def vars(self, pred):
        out = []
        for b in self.blocks:
            for name, info in b.items():
                if pred(info):
                    out.append(name)
        return out

    def get(self, name):
        for b in reversed(self.blocks):
            if name in b:
                return b[name]
        return None

    def set(self, name, info):
        for b in reversed(self.blocks):
            if name in b:
                b[name] = info
                return
        self.blocks[-1][name] = info

    def drop(self, name):
        for b in self.blocks:
            b.pop(name, None)

    def fresh(self, prefix):
        # smallest index not visible in any enclosing block: different bodies reuse the same names (i1, i2, s1 ...),
        # which makes a callee leaking into its caller's scope visible, and a name whose block has ended is declared
        # AGAIN by a later statement - a new variable owned by the later block
        k = 1
        while self.get('%s%d' % (prefix, k)) is not None:
            k += 1
        return '%s%d' % (prefix, k)


class Gen(object):
    def __init__(self, tape, max_stmts=12, max_depth=3, calls=None, params=None, self_cls=None, allow_return=True,
                 ret_ty='any'):
        self.ret_ty = ret_ty          # 'any' (C04 top-level), None (void callable: bare returns) or an OAL type
        self.enums = None             # (type name, [enumerators]) -> integer-valued Color::Red operands
        self.consts = None            # [(group, name, oal type)] -> Group::NAME operands (prebuild) or plain NAME (interpreter)
        self.const_style = 'plain'
        self.arrays = False           # array element assignments / reads (prebuild checks only)
        self.logical_calls = False    # invocations as operands of and / or (differential checks only)
        self.case_twins = False       # variables that differ from another one in letter case only (prebuild checks only)
        self.param_kw = ['param']     # spellings of the parameter access keyword (state actions: param / rcvd_evt)
        self.self_relates = False     # self as a participant of relate statements (prebuild checks only: nothing is executed)
        self.refattrs = False         # reads of referential attributes (prebuild checks only: identifier values are not modelled)
        self.t = tape
        self.max_stmts = max_stmts
        self.max_depth = max_depth
        self.calls = calls            # optional hook: calls.expr(gen, env, ty) -> AST or None ; calls.stmt(gen, env)
        self.params = params or {}    # name -> type
        self.self_cls = self_cls
        self.allow_return = allow_return
        self.features = set()

    # -- expressions ----------------------------------------------------------------------------------------
    def var(self, name):
        if name == 'self':
            return N('SelfAccessNode')
        return N('VariableAccessNode', variable_name=name)

    def lit(self, ty):
        t = self.t
        if ty == 'int':
            return N('IntegerNode', value=t.choice(INT_LIT))
        if ty == 'str':
            return N('StringNode', value=t.choice(STR_LIT))
        if ty == 'bool':
            return N('BooleanNode', value=t.choice(['true', 'false']))
        return N('RealNode', value=t.choice(REAL_LIT))

    def attr_read(self, env, ty, selected_cls=None):
        """an attribute read of OAL type ty through a non-empty instance variable (or selected / self)"""
        cands = []
        for name in env.vars(lambda i: i['ty'] == 'inst' and i.get('nonempty')):
            cls = env.get(name)['cls']
            for an, at in READABLE[cls]:
                if at == ty:
                    cands.append((self.var(name), an))
        if selected_cls:
            for an, at in READABLE[selected_cls]:
                if at == ty:
                    cands.append((N('SelectedAccessNode'), an))
                    cands.append((N('SelectedAccessNode'), an))
        if self.self_cls:
            for an, at in READABLE[self.self_cls]:
                if at == ty:
                    cands.append((N('SelfAccessNode'), an))
        if not cands:
            return None
        h, an = self.t.choice(cands)
        return N('FieldAccessNode', handle=h, name=an)

    def where_expr(self, env, cls):
        """mostly a comparison on an attribute of `selected`, so that the clause really filters"""
        t = self.t
        if t.pick(5) == 0:
            return self.expr(env, 'bool', 2, selected_cls=cls)
        an, at = t.choice(ATTRS[cls])
        sel = N('FieldAccessNode', handle=N('SelectedAccessNode'), name=an)
        if at == 'int':
            rhs = self.expr(env, 'int', 1) if t.flag() else N('IntegerNode', value=t.choice(['0', '1', '2', '3']))
            c = N('BinaryOperationNode', left=sel, operator=t.choice(['<', '<=', '>', '>=', '==', '!=']), right=rhs)
        elif at == 'str':
            c = N('BinaryOperationNode', left=sel, operator=t.choice(['==', '!=']), right=N('StringNode', value=t.choice(['""', '"a"', '"b"'])))
        elif at == 'bool':
            c = sel if t.flag() else N('UnaryOperationNode', operator='not', operand=sel)
        else:
            c = N('BinaryOperationNode', left=sel, operator=t.choice(['<', '>']), right=N('RealNode', value=t.choice(['0.0', '1.0'])))
        if t.pick(4) == 0:
            c = N('BinaryOperationNode', left=c, operator=t.choice(['and', 'or']), right=self.expr(env, 'bool', 1, selected_cls=cls))
        return c

    def expr(self, env, ty, depth=2, selected_cls=None):
        t = self.t
        k = t.pick(10)
        if depth <= 0:
            k = k % 4
        if k == 0:
            if ty == 'int' and self.enums and t.pick(3) == 0:
                self.features.add('enumerator')
                return N('EnumOrNamedConstantNode', namespace=self.enums[0], name=t.choice(self.enums[1]))
            if self.consts and t.pick(3) == 0:
                cs = [c for c in self.consts if c[2] == ty]
                if cs:
                    c = t.choice(cs)
                    self.features.add('constant')
                    if self.const_style == 'namespaced':
                        return N('EnumOrNamedConstantNode', namespace=c[0], name=c[1])
                    return self.var(c[1])
            return self.lit(ty)
        if k == 1:
            arrs = env.vars(lambda i: i['ty'] == 'arr' and i['el'] == ty) if self.arrays else []
            if arrs and t.flag():
                a = t.choice(arrs)
                e = N('IndexAccessNode', handle=self.var(a), expression=N('IntegerNode', value=str(t.pick(env.get(a)['n']))))
                for n_ in env.get(a).get('more', []):
                    e = N('IndexAccessNode', handle=e, expression=N('IntegerNode', value=str(t.pick(n_))))
                return e
            vs = env.vars(lambda i: i['ty'] == ty)
            if vs:
                return self.var(t.choice(vs))
            return self.lit(ty)
        if k == 2:
            a = self.attr_read(env, ty, selected_cls)
            return a if a is not None else self.lit(ty)
        if k == 3:
            ps = [n for n, pt in self.params.items() if pt == ty]
            if ps:
                return N('ParamAccessNode', variable_name=t.choice(ps),
                         _kw=t.choice(self.param_kw) if len(self.param_kw) > 1 else 'param')
            if self.calls is not None:
                c = self.calls.expr(self, env, ty, depth)
                if c is not None:
                    return c
            return self.lit(ty)
        sub = lambda ty2: self.expr(env, ty2, depth - 1, selected_cls)
        B = lambda l, o, r: N('BinaryOperationNode', left=l, operator=o, right=r)
        if ty == 'int':
            if k == 4:
                hs = env.vars(lambda i: i['ty'] in ('inst', 'set'))
                if hs:
                    return N('UnaryOperationNode', operator='cardinality', operand=self.var(t.choice(hs)))
            if k == 5:
                return N('UnaryOperationNode', operator=t.choice(['-', '+']), operand=sub('int'))
            if k == 6 and t.pick(4) == 0:
                return B(sub('int'), t.choice(['/', '%']), N('IntegerNode', value=t.choice(['1', '2', '3'])))
            return B(sub('int'), t.choice(['+', '-', '*', '+', '-']), sub('int'))
        if ty == 'real':
            return B(sub('real'), t.choice(['+', '-', '*']), sub(t.choice(['real', 'real', 'int'])))
        if ty == 'str':
            return B(sub('str'), '+', sub('str'))
        if ty == 'id':
            return self.lit('int')
        # bool
        if k == 4:
            hs = env.vars(lambda i: i['ty'] in ('inst', 'set'))
            if hs:
                return N('UnaryOperationNode', operator=t.choice(['empty', 'not_empty']), operand=self.var(t.choice(hs)))
        if k == 5:
            hs = env.vars(lambda i: i['ty'] in ('inst', 'set'))
            if hs and t.flag():
                return N('UnaryOperationNode', operator='not', operand=N(
                    'UnaryOperationNode', operator=t.choice(['empty', 'not_empty']), operand=self.var(t.choice(hs))))
            if self.calls is not None and t.flag():
                # a keyword operator applied to an invocation: the callee (and its side effects) runs exactly once
                c = self.calls.expr(self, env, 'bool', depth - 1)
                if c is not None:
                    return N('UnaryOperationNode', operator='not', operand=c)
            return N('UnaryOperationNode', operator='not', operand=sub('bool'))
        if k == 6 and self.logical_calls and self.calls is not None and t.flag():
            # invocation as an operand of and / or (only where results are compared between two runs of the library:
            # how often such an operand is evaluated is not fixed by the language)
            c = self.calls.expr(self, env, 'bool', depth - 1)
            if c is not None:
                return B(c, t.choice(['and', 'or']), sub('bool')) if t.flag() else B(sub('bool'), t.choice(['and', 'or']), c)
        if k == 6:
            ps = [n for n, pt in self.params.items() if pt == 'bool']
            if ps and t.flag():
                # a parameter (whose declared type may be a user type) as the left operand of and / or
                return B(N('ParamAccessNode', variable_name=t.choice(ps), _kw='param'), t.choice(['and', 'or']), sub('bool'))
            return B(sub('bool'), t.choice(['and', 'or']), sub('bool'))
        if k == 7:
            return B(sub('str'), t.choice(['==', '!=']), sub('str'))
        if k == 8:
            insts = env.vars(lambda i: i['ty'] == 'inst')
            if len(insts) >= 2:
                a = t.choice(insts)
                same = [v for v in insts if env.get(v)['cls'] == env.get(a)['cls']]
                return B(self.var(a), t.choice(['==', '!=']), self.var(t.choice(same)))
        nt = t.choice(['int', 'int', 'real'])
        nt2 = nt
        if t.pick(4) == 0:
            nt2 = 'real' if nt == 'int' else 'int'        # comparing an integer with a real is a boolean all the same
            self.features.add('mixed-comparison')
        return B(sub(nt), t.choice(['<', '<=', '>', '>=', '==', '!=']), sub(nt2))

    # -- statements --------------------------------------------------------------------------------------------
    def body(self):
        env = Env()
        stmts = self.stmts(env, self.max_depth, False, top=True)
        return N('BodyNode', block=block(stmts))

    def budget(self, env):
        return env.counter['stmts'] < self.max_stmts

    def stmts(self, env, depth, in_loop, top=False, minimum=1):
        out = []
        n = minimum + self.t.pick(5 if top else 3)
        for _ in range(n):
            if not self.budget(env):
                break
            out.extend(self.stmt(env, depth, in_loop))
        return out

    def inner_block(self, env, depth, in_loop, pre=None, nonempty=None):
        env.push()
        if nonempty:
            info = dict(env.get(nonempty))
            info['nonempty'] = True
            env.blocks[-1][nonempty] = info        # refined knowledge inside the guard only
        stmts = list(pre or []) + self.stmts(env, depth - 1, in_loop)
        if nonempty:
            env.blocks[-1].pop(nonempty, None)
        env.pop()
        return block(stmts)

    def assign_scalar(self, env):
        if self.refattrs and self.t.pick(5) == 0:
            # read of a referential attribute (named differently from the identifying attribute it refers to)
            cands = [(v, a) for v in env.vars(lambda i: i['ty'] == 'inst' and i.get('nonempty'))
                     for a in REF_ATTRS.get(env.get(v)['cls'], [])]
            if cands:
                v, a = self.t.choice(cands)
                name = env.fresh('u')
                env.set(name, {'ty': 'id'})
                self.features.add('referential-read')
                return [N('AssignmentNode', variable_access=self.var(name), expression=N('FieldAccessNode', handle=self.var(v), name=a))]
        ty = self.t.choice(['int', 'int', 'str', 'bool', 'real'])
        vs = env.vars(lambda i: i['ty'] == ty and not i.get('ro'))
        if vs and self.t.flag():
            name = self.t.choice(vs)
        else:
            name = env.fresh({'int': 'i', 'str': 's', 'bool': 'b', 'real': 'r'}[ty])
            if self.case_twins and self.t.pick(3) == 0:
                # identifiers are case sensitive: a new variable spelled like a visible one of ANOTHER type, first letter
                # in upper case (i1 / I1), is a variable of its own
                lows = [v for v in env.vars(lambda i: i['ty'] in ('int', 'str', 'bool', 'real') and i['ty'] != ty)
                        if v[0].islower() and env.get(v[0].upper() + v[1:]) is None and v not in ('acc',)]
                if lows:
                    low = self.t.choice(lows)
                    name = low[0].upper() + low[1:]
                    self.features.add('case-twin-variable')
        e = self.expr(env, ty)
        env.set(name, {'ty': ty})
        return [N('AssignmentNode', variable_access=self.var(name), expression=e)]

    def create(self, env, cls=None):
        cls = cls or self.t.choice(CLASSES)
        name = env.fresh(cls.lower() + '_')
        env.set(name, {'ty': 'inst', 'cls': cls, 'nonempty': True, 'fresh': True})
        self.features.add('create')
        return name, [N('CreateObjectNode', variable_name=name, key_letter=cls)]

    def bucket_churn(self, env):
        """one A with several Bs across R1; one B (first / middle / most recent) is unrelated, another one related,
        then the Bs are selected from the A and summed: membership, order and cardinality of a many-end that
        shrank and grew again"""
        t = self.t
        out = []
        a, pre = self.create(env, 'A')
        out += pre
        R = lambda x, y: N('RelateNode', from_variable_name=x, to_variable_name=y, rel_id='R1', phrase='') if t.flag() else \
            N('RelateNode', from_variable_name=y, to_variable_name=x, rel_id='R1', phrase='')
        bs = []
        nval = {}
        for i in range(2 + t.pick(3)):
            b, pre = self.create(env, 'B')
            bs.append(b)
            nval[b] = str(2 ** i)
            out += pre + [N('AssignmentNode', variable_access=N('FieldAccessNode', handle=self.var(b), name='n'),
                            expression=N('IntegerNode', value=str(2 ** i))), R(b, a)]
        for _ in range(1 + t.pick(2)):
            j = [len(bs) - 1, 0, len(bs) // 2][t.pick(3)] if bs else None
            if j is not None:
                gone = bs.pop(j)
                x, y = (gone, a) if t.flag() else (a, gone)
                out.append(N('UnrelateNode', from_variable_name=x, to_variable_name=y, rel_id='R1', phrase=''))
            if t.pick(4) != 0:
                b, pre = self.create(env, 'B')
                bs.append(b)
                nval[b] = t.choice(['16', '32', '64'])
                out += pre + [N('AssignmentNode', variable_access=N('FieldAccessNode', handle=self.var(b), name='n'),
                                expression=N('IntegerNode', value=nval[b])), R(b, a)]
        self.features.add('bucket-churn')
        self.features.add('relate')
        self.features.add('unrelate')
        name = env.fresh('bs_')
        out.append(N('SelectRelatedNode', cardinality='many', variable_name=name, handle=self.var(a),
                     navigation_chain=N('NavigationListNode', children=[
                         N('NavigationStepNode', key_letter='B', rel_id='R1', phrase='')])))
        env.set(name, {'ty': 'set', 'cls': 'B', 'nonempty': False})
        if env.get('acc') is not None:
            A = lambda e: N('AssignmentNode', variable_access=self.var('acc'),
                            expression=N('BinaryOperationNode', left=self.var('acc'), operator='+', right=e))
            out.append(A(N('UnaryOperationNode', operator='cardinality', operand=self.var(name))))
            ev = env.fresh('e')
            out.append(N('ForEachNode', instance_variable_name=ev, set_variable_name=name,
                         block=block([A(N('FieldAccessNode', handle=self.var(ev), name='n'))])))
            if len(bs) >= 2:
                # the where clause of a single-valued selection picks among ALL related instances, not just the first
                target = bs[-1] if t.flag() else bs[len(bs) // 2]
                one = env.fresh('b_')
                out.append(N('SelectRelatedWhereNode', cardinality='any', variable_name=one, handle=self.var(a),
                             navigation_chain=N('NavigationListNode', children=[
                                 N('NavigationStepNode', key_letter='B', rel_id='R1', phrase='')]),
                             where_clause=N('BinaryOperationNode', left=N('FieldAccessNode', handle=N('SelectedAccessNode'), name='n'),
                                            operator='==', right=N('IntegerNode', value=nval[target]))))
                env.set(one, {'ty': 'inst', 'cls': 'B', 'nonempty': False})
                out.append(N('IfNode', expression=N('UnaryOperationNode', operator='not_empty', operand=self.var(one)),
                             block=block([A(N('BinaryOperationNode', left=N('FieldAccessNode', handle=self.var(one), name='n'),
                                               operator='*', right=N('IntegerNode', value='1000')))]),
                             elif_list=N('ElIfListNode', children=[]), else_clause=None))
                self.features.add('where')
        return out

    def delete_linked(self, env):
        """an instance that takes part in links (a chain member with neighbours on both sides, one of several partners on
        a many end ...) is deleted without being unrelated first: it leaves every link it took part in, and what its
        neighbours reach afterwards is observed from each of them"""
        t = self.t
        out = []
        fc, tc, rel, ph = t.choice(RELATES)
        R = lambda x, y, r_, p_: N('RelateNode', from_variable_name=x, to_variable_name=y, rel_id='R%d' % r_, phrase=("'%s'" % p_) if p_ else '')
        if fc == 'L':
            # link instance between an A and a D
            x, p0 = self.create(env, 'L')
            a, p1 = self.create(env, 'A')
            d, p2 = self.create(env, 'D')
            out += p0 + p1 + p2 + [N('RelateUsingNode', from_variable_name=a, to_variable_name=d, rel_id='R4', phrase='', using_variable_name=x)]
            victim, others = t.choice([(x, [a, d]), (a, [x, d]), (d, [x, a])])
        elif fc == 'P':
            # a chain of three, the middle (or an end) goes
            ps = []
            for _ in range(3):
                v, pre = self.create(env, 'P')
                ps.append(v)
                out += pre
            out += [R(ps[0], ps[1], 3, ph), R(ps[1], ps[2], 3, ph)]
            j = t.choice([1, 1, 0, 2])
            victim, others = ps[j], [v for i, v in enumerate(ps) if i != j]
        else:
            x, p0 = self.create(env, fc)
            y, p1 = self.create(env, tc)
            out += p0 + p1 + [R(x, y, rel, ph)]
            others = [y]
            if fc == 'B':
                x2, p2 = self.create(env, 'B')       # a second B on the same A
                out += p2 + [R(x2, y, rel, ph)]
                others.append(x2)
            victim = x
            if t.flag():
                victim, others = y, [x] + others[1:]
        out.append(N('DeleteNode', variable_name=victim))
        vcls = env.get(victim)['cls']
        env.drop(victim)
        self.features.add('delete')
        self.features.add('delete-linked')
        for o in others:
            ocls = env.get(o)['cls']
            for hop in HOPS[ocls]:
                if hop[0] != vcls and not (ocls == 'A' and hop[0] == 'D') and not (ocls == 'D' and hop[0] == 'A'):
                    continue
                name = env.fresh(hop[0].lower() + 's_')
                out.append(N('SelectRelatedNode', cardinality='many', variable_name=name, handle=self.var(o),
                             navigation_chain=N('NavigationListNode', children=[
                                 N('NavigationStepNode', key_letter=hop[0], rel_id='R%d' % hop[1], phrase=("'%s'" % hop[2]) if hop[2] else '')])))
                env.set(name, {'ty': 'set', 'cls': hop[0], 'nonempty': False})
                if env.get('acc') is not None:
                    out.append(N('AssignmentNode', variable_access=self.var('acc'), expression=N(
                        'BinaryOperationNode', left=N('BinaryOperationNode', left=self.var('acc'), operator='*', right=N('IntegerNode', value='3')),
                        operator='+', right=N('UnaryOperationNode', operator='cardinality', operand=self.var(name)))))
        return out

    def nonempty_insts(self, env, cls=None):
        return env.vars(lambda i: i['ty'] == 'inst' and i.get('nonempty') and (cls is None or i['cls'] == cls))

    def stmt(self, env, depth, in_loop):
        t = self.t
        env.counter['stmts'] += 1
        k = t.pick(24)
        if in_loop and k in (0, 23):
            k = 19
        if k == 2 and self.arrays:
            # array element assignment: the first one declares the array (dimension from the constant index)
            ty = t.choice(['int', 'str', 'bool'])
            arrs = env.vars(lambda i: i['ty'] == 'arr' and i['el'] == ty)
            rhs = self.expr(env, ty, 1)            # before the array is declared: it cannot read itself
            if arrs and t.flag():
                name = t.choice(arrs)
                idx = t.pick(env.get(name)['n'])
                more = [t.pick(n_) for n_ in env.get(name).get('more', [])]
            else:
                name = env.fresh('arr')
                idx = t.pick(3)
                # one array in three has two or three dimensions: `m[1][2] = ...` declares them all at once
                more = [t.pick(3) for _ in range(t.pick(3))] if t.pick(3) == 0 else []
                env.set(name, {'ty': 'arr', 'el': ty, 'n': idx + 1, 'more': [i + 1 for i in more]})
                if more:
                    self.features.add('array-dims-%d' % (len(more) + 1))
            self.features.add('array')
            target = N('IndexAccessNode', handle=self.var(name), expression=N('IntegerNode', value=str(idx)))
            for i in more:
                target = N('IndexAccessNode', handle=target, expression=N('IntegerNode', value=str(i)))
            return [N('AssignmentNode', variable_access=target, expression=rhs)]
        if k <= 2:
            return self.assign_scalar(env)
        if k == 3:
            return self.create(env)[1]
        if k in (4, 5):          # attribute write
            vs = self.nonempty_insts(env)
            if not vs:
                name, pre = self.create(env)
                vs = [name]
            else:
                pre = []
            v = t.choice(vs)
            an, at = t.choice(ATTRS[env.get(v)['cls']])
            self.features.add('attr-write')
            return pre + [N('AssignmentNode', variable_access=N('FieldAccessNode', handle=self.var(v), name=an),
                            expression=self.expr(env, at))]
        if k in (6, 7):          # select from instances
            cls = t.choice(CLASSES)
            many = t.flag()
            name = env.fresh(cls.lower() + ('s_' if many else '_'))
            where = t.flag()
            node = N('SelectFromWhereNode' if where else 'SelectFromNode', cardinality='many' if many else 'any',
                     variable_name=name, key_letter=cls)
            if where:
                node['where_clause'] = self.where_expr(env, cls)
                self.features.add('where')
            env.set(name, {'ty': 'set' if many else 'inst', 'cls': cls, 'nonempty': False})
            return [node] + self.observe(env, name)
        if k in (8, 9, 10):      # select related
            starts = env.vars(lambda i: (i['ty'] == 'inst' and i.get('nonempty')) or i['ty'] == 'set')
            if not starts:
                return self.stmt_fallback(env)
            h = t.choice(starts)
            cls = env.get(h)['cls']
            single = env.get(h)['ty'] == 'inst'
            steps = []
            for _ in range(1 + t.pick(3)):
                hop = t.choice(HOPS[cls])
                st_ = N('NavigationStepNode', key_letter=hop[0], rel_id='R%d' % hop[1], phrase=("'%s'" % hop[2]) if hop[2] else '')
                steps.append(st_)
                cls = hop[0]
                single = single and hop[3]
            if len(steps) >= 2:
                self.features.add('chain')
            card = t.choice(['one', 'any'] if single else ['any', 'many', 'many'])
            if single and t.pick(4) == 0:
                card = 'many'
            name = env.fresh(cls.lower() + ('s_' if card == 'many' else '_'))
            where = t.flag()
            node = N('SelectRelatedWhereNode' if where else 'SelectRelatedNode', cardinality=card, variable_name=name,
                     handle=self.var(h), navigation_chain=N('NavigationListNode', children=steps))
            if where:
                node['where_clause'] = self.where_expr(env, cls)
                self.features.add('where')
            env.set(name, {'ty': 'set' if card == 'many' else 'inst', 'cls': cls, 'nonempty': False})
            return [node] + self.observe(env, name)
        if k in (11, 12) and t.pick(4) == 0:
            return self.bucket_churn(env)
        if k in (11, 12):        # relate (fresh instances keep the multiplicity rules satisfied)
            fc, tc, rel, ph = t.choice(RELATES)
            existing = self.nonempty_insts(env, tc)
            a, p1 = self.create(env, fc)
            if t.pick(3) == 0 and existing and fc in ('B', 'L'):
                b, p2 = t.choice(existing), []   # many Bs / Ls may share one A / D
            else:
                b, p2 = self.create(env, tc)
            if self.self_relates and self.self_cls in (fc, tc) and t.flag():
                # the running instance takes the place of one participant (at any block depth)
                if self.self_cls == fc:
                    env.drop(a)
                    a, p1 = 'self', []
                else:
                    if p2:
                        env.drop(b)
                    b, p2 = 'self', []
                self.features.add('relate-self')
            pre = p1 + p2
            self.features.add('relate')
            if fc == 'L' and t.pick(4) != 0:
                # associative link in one statement
                if a != 'self':
                    env.drop(a)
                if p2:
                    env.drop(p2[0]['variable_name'])
                x, p3 = self.create(env, 'A')
                y, p4 = self.create(env, 'D')
                l, p5 = self.create(env, 'L')
                first, second = (x, y) if t.flag() else (y, x)
                self.features.add('relate-using')
                out = p3 + p4 + p5 + [N('RelateUsingNode', from_variable_name=first, to_variable_name=second, rel_id='R4',
                                        phrase='', using_variable_name=l)]
                if t.flag():
                    f2, s2 = (first, second) if t.flag() else (second, first)
                    out.append(N('UnrelateUsingNode', from_variable_name=f2, to_variable_name=s2, rel_id='R4', phrase='',
                                 using_variable_name=l))
                    self.features.add('unrelate-using')
                return out
            return pre + [N('RelateNode', from_variable_name=a, to_variable_name=b, rel_id='R%d' % rel,
                            phrase=("'%s'" % ph) if ph else '')]
        if k == 13:              # guarded unrelate
            vs = self.nonempty_insts(env)
            cands = [(v, hop) for v in vs for hop in HOPS[env.get(v)['cls']] if hop[3] and not (hop[1] == 4 and env.get(v)['cls'] in ('A', 'D'))]
            if not cands:
                return self.stmt_fallback(env)
            v, hop = t.choice(cands)
            tmp = env.fresh('u_')
            sel = N('SelectRelatedNode', cardinality='one', variable_name=tmp, handle=self.var(v),
                    navigation_chain=N('NavigationListNode', children=[
                        N('NavigationStepNode', key_letter=hop[0], rel_id='R%d' % hop[1], phrase=("'%s'" % hop[2]) if hop[2] else '')]))
            un = N('UnrelateNode', from_variable_name=v, to_variable_name=tmp, rel_id='R%d' % hop[1],
                   phrase=("'%s'" % hop[2]) if hop[2] else '')
            env.set(tmp, {'ty': 'inst', 'cls': hop[0], 'nonempty': False})
            self.features.add('unrelate')
            guard = N('IfNode', expression=N('UnaryOperationNode', operator='not_empty', operand=self.var(tmp)),
                      block=block([un]), elif_list=N('ElIfListNode', children=[]), else_clause=None)
            out = [sel, guard]
            if t.flag():
                # v is free on that end now: relate it again to a fresh partner (relate - unrelate - relate)
                n, pre = self.create(env, hop[0])
                out += pre + [N('RelateNode', from_variable_name=v, to_variable_name=n, rel_id='R%d' % hop[1],
                                phrase=("'%s'" % hop[2]) if hop[2] else '')]
                self.features.add('re-relate')
            return out
        if k == 14 and t.pick(3) == 0:
            return self.delete_linked(env)
        if k == 14:              # delete a fresh instance
            name, pre = self.create(env)
            env.drop(name)
            self.features.add('delete')
            return pre + [N('DeleteNode', variable_name=name)]
        if k in (15, 16) and depth > 0:     # if / elif / else
            cond = self.expr(env, 'bool')
            maybe = env.vars(lambda i: i['ty'] == 'inst' and not i.get('nonempty'))
            guard = None
            if maybe and t.flag():
                guard = t.choice(maybe)
                cond = N('UnaryOperationNode', operator='not_empty', operand=self.var(guard))
            blk = self.inner_block(env, depth, in_loop, nonempty=guard)
            elifs = [N('ElIfNode', expression=self.expr(env, 'bool'), block=self.inner_block(env, depth, in_loop))
                     for _ in range(t.pick(3))]
            els = N('ElseNode', block=self.inner_block(env, depth, in_loop)) if t.flag() else None
            if elifs:
                self.features.add('elif')
            return [N('IfNode', expression=cond, block=blk, elif_list=N('ElIfListNode', children=elifs), else_clause=els)]
        if k == 17 and depth > 0:           # bounded while
            c = env.fresh('w')
            env.set(c, {'ty': 'int', 'ro': True})
            bound = t.choice(['1', '2', '3', '4'])
            init = N('AssignmentNode', variable_access=self.var(c), expression=N('IntegerNode', value='0'))
            inc = N('AssignmentNode', variable_access=self.var(c),
                    expression=N('BinaryOperationNode', left=self.var(c), operator='+', right=N('IntegerNode', value='1')))
            cond = N('BinaryOperationNode', left=self.var(c), operator='<', right=N('IntegerNode', value=bound))
            blk = self.inner_block(env, depth, True, pre=[inc] + self.acc_step(env, '100'))
            blk['statement_list']['children'].extend(self.acc_step(env, '1'))
            self.features.add('while')
            if in_loop:
                self.features.add('nested-loop')
            return [init, N('WhileNode', expression=cond, block=blk)]
        if k == 18 and depth > 0:           # for each
            sets = env.vars(lambda i: i['ty'] == 'set')
            pre = []
            if not sets:
                cls = t.choice(CLASSES)
                name = env.fresh(cls.lower() + 's_')
                pre = [N('SelectFromNode', cardinality='many', variable_name=name, key_letter=cls)]
                env.set(name, {'ty': 'set', 'cls': cls, 'nonempty': False})
                sets = [name]
            sv = t.choice(sets)
            ev = env.fresh('e')
            reuse = [v for v in env.vars(lambda i: i['ty'] == 'inst' and i['cls'] == env.get(sv)['cls'] and not i.get('ro')) if v != 'self']
            if reuse and t.flag():
                # the iterator is a variable that exists already (declared in this or an enclosing block): it is assigned
                # on every round and keeps the last element afterwards
                ev = t.choice(reuse)
                self.features.add('foreach-existing-iterator')
            env.push()
            env.blocks[-1][ev] = {'ty': 'inst', 'cls': env.get(sv)['cls'], 'nonempty': True}
            seen = []
            ints = [an for an, at in ATTRS[env.get(sv)['cls']] if at == 'int']
            if env.get('acc') is not None and ints:
                # which instance a round works on shows in the result
                seen = [N('AssignmentNode', variable_access=self.var('acc'), expression=N(
                    'BinaryOperationNode', left=self.var('acc'), operator='+', right=N('FieldAccessNode', handle=self.var(ev), name=ints[0])))]
            body_ = self.acc_step(env, '100') + seen + self.stmts(env, depth - 1, True) + self.acc_step(env, '1')
            env.pop()
            if env.get(ev) is not None:
                env.set(ev, dict(env.get(ev), nonempty=False))      # an empty set leaves it as it was
            self.features.add('foreach')
            if in_loop:
                self.features.add('nested-loop')
            return pre + [N('ForEachNode', instance_variable_name=ev, set_variable_name=sv, block=block(body_))]
        if k == 19 and in_loop:
            self.features.add('break-continue')
            inner = N('BreakNode') if t.flag() else N('ContinueNode')
            if t.pick(3) == 0:
                return [inner]
            return [N('IfNode', expression=self.expr(env, 'bool'), block=block([inner]),
                      elif_list=N('ElIfListNode', children=[]), else_clause=None)]
        if k == 20 and self.allow_return and t.pick(3) == 0:
            self.features.add('return')
            form = t.pick(6)
            if self.ret_ty is None or (self.ret_ty == 'any' and form == 0):
                r = N('ReturnNode', expression=None)
                self.features.add('bare-return')
            elif self.ret_ty == 'any':
                r = N('ReturnNode', expression=self.expr(env, t.choice(['int', 'str', 'bool', 'int'])))
            else:
                r = N('ReturnNode', expression=self.expr(env, self.ret_ty))
            if in_loop:
                self.features.add('return-in-loop')
            if t.flag():
                return [N('IfNode', expression=self.expr(env, 'bool'), block=block([r]),
                          elif_list=N('ElIfListNode', children=[]), else_clause=None)]
            return [r]
        if k == 21 and t.pick(6) == 0:
            self.features.add('control-stop')
            return [N('IfNode', expression=self.expr(env, 'bool'), block=block([N('ControlNode')]),
                      elif_list=N('ElIfListNode', children=[]), else_clause=None)]
        if k == 22 and self.calls is not None:
            c = self.calls.stmt(self, env)
            if c is not None:
                return c
        return self.stmt_fallback(env)

    def observe(self, env, name):
        """make the outcome of a selection visible in the accumulator"""
        if env.get('acc') is None or self.t.pick(3) == 0:
            return []
        info = env.get(name)
        A = lambda e: N('AssignmentNode', variable_access=self.var('acc'),
                        expression=N('BinaryOperationNode', left=self.var('acc'), operator='+', right=e))
        out = [A(N('UnaryOperationNode', operator='cardinality', operand=self.var(name)))]
        ints = [an for an, at in ATTRS[info['cls']] if at == 'int']
        if info['ty'] == 'inst' and ints:
            out.append(N('IfNode', expression=N('UnaryOperationNode', operator='not_empty', operand=self.var(name)),
                         block=block([A(N('BinaryOperationNode', left=N('FieldAccessNode', handle=self.var(name), name=ints[0]),
                                           operator='*', right=N('IntegerNode', value='3')))]),
                         elif_list=N('ElIfListNode', children=[]), else_clause=None))
        return out

    def acc_step(self, env, k):
        """acc = acc + k : makes the number of (complete) loop iterations observable in the result"""
        if env.get('acc') is None:
            return []
        return [N('AssignmentNode', variable_access=self.var('acc'),
                  expression=N('BinaryOperationNode', left=self.var('acc'), operator='+', right=N('IntegerNode', value=k)))]

    def stmt_fallback(self, env):
        return self.assign_scalar(env)

    def final_return(self, env_unused=None):
        pass


def program(ints, max_stmts=12, max_depth=3):
    """-> (BodyNode AST, feature set).  The body starts with an accumulator, ends by writing the scalars still in
    scope into a fresh instance (so that they show up in the final population) and returns an integer summary."""
    g = Gen(Tape(ints), max_stmts, max_depth)
    env = Env()
    env.set('acc', {'ty': 'int', 'ro': True})
    stmts = [N('AssignmentNode', variable_access=g.var('acc'), expression=N('IntegerNode', value='0'))]
    # bind parts of the initial population, so that navigations start from linked instances
    for _ in range(g.t.pick(4)):
        cls = g.t.choice(CLASSES)
        name = env.fresh(cls.lower() + 's_')
        stmts.append(N('SelectFromNode', cardinality='many', variable_name=name, key_letter=cls))
        env.set(name, {'ty': 'set', 'cls': cls, 'nonempty': False})
    stmts += g.stmts(env, max_depth, False, top=True, minimum=2)
    e = g.var('acc')
    for v in env.vars(lambda i: i['ty'] == 'int' and not i.get('ro'))[:4]:
        e = N('BinaryOperationNode', left=e, operator='+', right=g.var(v))
    for v in env.vars(lambda i: i['ty'] in ('inst', 'set'))[:3]:
        e = N('BinaryOperationNode', left=e, operator='+',
              right=N('UnaryOperationNode', operator='cardinality', operand=g.var(v)))
    stmts.append(N('CreateObjectNode', variable_name='zz_dump', key_letter='A'))
    F = lambda a: N('FieldAccessNode', handle=g.var('zz_dump'), name=a)
    stmts.append(N('AssignmentNode', variable_access=F('n'), expression=e))
    for ty, attr in (('str', 's'), ('real', 'r'), ('bool', 'b')):
        vs = env.vars(lambda i: i['ty'] == ty)
        if vs:
            val = g.var(vs[0])
            for v in vs[1:3]:
                if ty == 'str':
                    val = N('BinaryOperationNode', left=val, operator='+', right=g.var(v))
                elif ty == 'real':
                    val = N('BinaryOperationNode', left=val, operator='-', right=g.var(v))
                else:
                    val = N('BinaryOperationNode', left=val, operator='!=', right=g.var(v))
            stmts.append(N('AssignmentNode', variable_access=F(attr), expression=val))
    stmts.append(N('ReturnNode', expression=F('n')))
    return N('BodyNode', block=block(stmts)), g.features
