"""C03 - loading links exactly the key-matching pairs, independent of input order."""
import itertools
import os
import shutil
import zipfile

from hypothesis import strategies as st

import xtuml
from . import gen_schema, popgen, build
from .core import Violation, hyp_run, Res, exc_bucket, sha
from .gen_schema import Schema, insert_statement, schema_statements, is_null, default_of
from .shadow import Shadow

PROPERTY = 'C03'
RULE = ('Hypothesis: schema from the shape grammar (single- and multi-attribute keys of id / integer / string type, '
        'reflexive, association-class and chained referentials) x dirty population (null keys per type incl. unset via '
        'named inserts, dangling and duplicate keys) written by the harness as SQL statements (positional / named, '
        'drawn keyword case, comments). Configurations: drawn permutations of ALL statements (schema statements '
        'included; every permutation when <= 6 statements in the thorough tier), partitions of the statement list '
        'into several input() calls and into several files for load_metamodel; ooaofooa-named populations through '
        'bridgepoint ModelLoader.filename_input as single file, nested directory tree, zip archive and several archives / files '
        'with like-named members on one loader; inferred '
        'schema (positional rows, no CREATE TABLE). Oracle: (1) links = key-join computed by the harness (all '
        'referring values non-null and equal), read by navigating both directions and through referential '
        'attributes; (2) a canonical form (schema, instance multiset, link multiset) identical across all '
        'permutations / partitions / containers; (3) the same rows created with MetaModel.new(**values) '
        'referred-first, positionally, and by clone() into a fresh metamodel give the same link multiset. '
        'non-trivial = a multi-attribute or non-id key, a null or dangling key, and >= 2 distinct configurations; '
        'distinct = by (schema, rows).')
ASSUMPTIONS = [
    'route (3) is compared on populations whose key-join respects multiplicity and has a referred-first order '
    '(the API checks multiplicity, the loader does not)',
    'instance order inside a class follows statement order and is excluded from the canonical form',
]


# -- writing ------------------------------------------------------------------------------------------

def render(stmt, style):
    """style: 0 plain, 1 lower-case keywords, 2 with comments/newlines."""
    if style == 1:
        # lower-case the leading keywords only (identifiers may be keywords themselves)
        for kw in ('CREATE TABLE', 'CREATE ROP REF_ID', 'CREATE UNIQUE INDEX', 'INSERT INTO'):
            if stmt.startswith(kw):
                return kw.lower() + stmt[len(kw):]
        return stmt
    if style == 2:
        return '-- c1\n  ' + stmt.replace(' (', '\n\t(', 1) + ' -- trailing\n'
    return stmt


def rows_statements(sc, rows, named_flags, omit_null_refs):
    out = []
    for k, (cn, row) in enumerate(rows):
        named = named_flags[k % len(named_flags)] if named_flags else False
        if named:
            attrs = sc.attrs(cn)
            refs = sc.referentials(cn)
            idx = [i for i, (n, t) in enumerate(attrs)
                   if not (omit_null_refs and n in refs and is_null(t, row.get(n)))]
            if k % 2:
                idx = list(reversed(idx))
            out.append(insert_statement(sc, cn, row, named=True, order=idx))
        else:
            out.append(insert_statement(sc, cn, row))
    return out


# -- observation --------------------------------------------------------------------------------------

def check_join(m, schema_js, rows, case, tag, skip_attrs=()):
    """(1): the loaded model links exactly the key-join; instance sequence = statement order."""
    def fail(bucket, detail):
        raise Violation('%s:%s' % (tag, bucket), case, detail)
    sc = Schema(schema_js)
    sh, recs = popgen.shadow_from_rows(schema_js, rows)
    real = {}
    for c in sc.classes:
        insts = list(m.select_many(c['name']))
        rs = recs.get(c['name'].upper(), [])
        if len(insts) != len(rs):
            fail('instance-count', '%s: %d instances for %d rows' % (c['name'], len(insts), len(rs)))
        for inst, rec in zip(insts, rs):
            real[rec.idx] = inst
            for n, t in sc.plain_attrs(c['name']):
                if (c['name'], n) in skip_attrs:
                    continue
                want = rec.vals.get(n)
                got = getattr(inst, n)
                if not _veq(got, want, t):
                    fail('plain-value', '%s.%s want %r got %r' % (c['name'], n, want, got))
    back = dict((id(v), k) for k, v in real.items())
    for i, a in enumerate(sc.assocs):
        for r in recs.get(a['src'].upper(), []):
            want = [p.idx for p in sh.partners(i, r, True)]
            got = [back.get(id(x)) for x in xtuml.navigate_many(real[r.idx]).nav(a['tgt'], a['rel'], a['src_phrase'])()]
            if _srt(got) != _srt(want):
                kind = 'missed' if set(want) - set(got) else 'spurious'
                fail('%s-link:%s' % (kind, a['shape']), 'R%d from %r: linked to %r, key-join says %r' % (a['rel'], r, got, want))
        for r in recs.get(a['tgt'].upper(), []):
            want = [p.idx for p in sh.partners(i, r, False)]
            got = [back.get(id(x)) for x in xtuml.navigate_many(real[r.idx]).nav(a['src'], a['rel'], a['tgt_phrase'])()]
            if _srt(got) != _srt(want):
                fail('backward-link:%s' % a['shape'], 'R%d to %r: reached from %r, key-join says %r' % (a['rel'], r, got, want))
    for c in sc.classes:
        refs = sc.referentials(c['name'])
        for rec in recs.get(c['name'].upper(), []):
            for n in refs:
                ok = sh.attr_values(rec, n)
                got = getattr(real[rec.idx], n)
                if not any(_veq(got, o, sc.attr_type(c['name'], n)) for o in ok):
                    fail('referential-read', '%r.%s reads %r, linked key %r' % (rec, n, got, ok))
    return sh


def _srt(xs):
    return sorted(-1 if x is None else x for x in xs)


def _veq(a, b, t):
    if a is None or b is None:
        return a is None and b is None
    if t.upper() == 'REAL':
        return float('%f' % a) == float('%f' % b)
    return a == b and isinstance(a, bool) == isinstance(b, bool)


def canon(m):
    """(2): order-free description from public reads."""
    d = {'classes': [], 'assocs': [], 'instances': {}, 'links': {}}
    for K in sorted(m.metaclasses):
        mc = m.metaclasses[K]
        d['classes'].append([K, [[n, t.upper()] for n, t in mc.attributes], sorted((k, list(v)) for k, v in mc.indices.items())])
        d['instances'][K] = sorted(repr([_norm(getattr(i, n)) for n, _ in mc.attributes]) for i in m.select_many(mc.kind))
    for ass in m.associations:
        sk, tk = ass.source_link.to_metaclass, ass.target_link.to_metaclass
        key = repr([ass.rel_id, sk.kind, list(ass.source_keys), ass.source_link.cardinality, ass.target_link.phrase,
                    tk.kind, list(ass.target_keys), ass.target_link.cardinality, ass.source_link.phrase])
        d['assocs'].append(key)
        pairs = []
        for s in m.select_many(sk.kind):
            for t in xtuml.navigate_many(s).nav(tk.kind, ass.rel_id, ass.target_link.phrase)():
                pairs.append(repr([[_norm(getattr(s, n)) for n, _ in sk.attributes],
                                   [_norm(getattr(t, n)) for n, _ in tk.attributes]]))
        d['links'][key] = sorted(pairs)
    d['assocs'].sort()
    return d


def _norm(v):
    if isinstance(v, float):
        return '%f' % v
    return v


# -- configurations -----------------------------------------------------------------------------------

def load_chunks(chunks):
    l = xtuml.ModelLoader()
    for c in chunks:
        l.input(c)
    return l.build_metamodel(xtuml.IntegerGenerator())


def split(seq, cuts):
    out, cur = [], []
    for k, x in enumerate(seq):
        cur.append(x)
        if k in cuts:
            out.append(cur)
            cur = []
    if cur:
        out.append(cur)
    return out


@st.composite
def cases(draw):
    schema_js = draw(gen_schema.schemas(max_classes=3, max_assocs=3, max_extra_attrs=1,
                                        shared_refs=True))
    rows = [list(r) for r in draw(popgen.dirty_rows(schema_js, max_rows=3))]
    nstm = len(schema_statements(schema_js)) + len(rows)
    perms = [draw(st.permutations(list(range(nstm)))) for _ in range(draw(st.integers(2, 4)))]
    return {'schema': schema_js, 'rows': rows, 'perms': [list(p) for p in perms],
            'cuts': sorted(draw(st.sets(st.integers(0, max(nstm - 1, 0)), max_size=4))),
            'named': draw(st.lists(st.booleans(), min_size=1, max_size=4)),
            'omit': draw(st.booleans()), 'styles': draw(st.lists(st.integers(0, 2), min_size=1, max_size=5)),
            'files': draw(st.booleans()), 'api': draw(st.sampled_from(['new-kw', 'new-pos', 'clone', 'none']))}


def referred_first_order(sc, sh, recs_all):
    """Order of records such that every record comes after the records it refers to; None if cyclic."""
    deps = {}
    for r in recs_all:
        deps[r.idx] = set()
    for i, a in enumerate(sc.assocs):
        for s, t in sh.links[i]:
            if s is not t:
                deps[s.idx].add(t.idx)
            else:
                return None
    order, done = [], set()
    pending = list(recs_all)
    while pending:
        progress = False
        for r in list(pending):
            if deps[r.idx] <= done:
                order.append(r)
                done.add(r.idx)
                pending.remove(r)
                progress = True
        if not progress:
            return None
    return order


def multiplicity_ok(sc, sh):
    for i, a in enumerate(sc.assocs):
        srcs = [s.idx for s, t in sh.links[i]]
        tgts = [t.idx for s, t in sh.links[i]]
        if len(set(srcs)) != len(srcs):
            return False
        if not a['src_many'] and len(set(tgts)) != len(tgts):
            return False
    return True


def api_route(case, schema_js, rows, sh, how):
    """(3) returns (classes tag list) or raises Violation."""
    sc = Schema(schema_js)
    recs_all = list(sh.recs)
    if not multiplicity_ok(sc, sh):
        return 'skipped-multiplicity'
    order = referred_first_order(sc, sh, recs_all)
    if order is None:
        return 'skipped-cyclic'
    # The API derives referential attributes from links.  A referred key that is itself a referential
    # attribute whose row value does not resolve (dangling chain) exists only as a raw value in the file:
    # such rows cannot be re-created through the API at all, so they are outside the stated equivalence.
    rawrows = {}
    cnt0 = {}
    for cn, row in rows:
        k = cnt0.get(cn.upper(), 0)
        cnt0[cn.upper()] = k + 1
        rawrows[(cn.upper(), k)] = row
    posn = {}
    cnt1 = {}
    for r in recs_all:
        k = cnt1.get(r.cls.upper(), 0)
        cnt1[r.cls.upper()] = k + 1
        posn[r.idx] = k
    for i, a in enumerate(sc.assocs):
        trefs = sc.referentials(a['tgt'])
        for s_, t_ in sh.links[i]:
            for tk in a['tgt_keys']:
                if tk in trefs and sh.attr(t_, tk) != rawrows[(t_.cls.upper(), posn[t_.idx])].get(tk):
                    return 'skipped-unresolved-chain'
    # per class row lookup
    per = {}
    rowof = {}
    for cn, row in rows:
        k = per.get(cn.upper(), 0)
        per[cn.upper()] = k + 1
        rowof[(cn.upper(), k)] = row
    pos = {}
    cnt = {}
    for r in recs_all:
        k = cnt.get(r.cls.upper(), 0)
        cnt[r.cls.upper()] = k + 1
        pos[r.idx] = k
    # witness classification for the known sub-domains (DESIGN.md 4 item 8)
    phrase_shapes = [a for a in sc.assocs if a['src_phrase'] != a['tgt_phrase']]
    null_match = False
    for i, a in enumerate(sc.assocs):
        for cn, row in rows:
            if cn.upper() != a['src'].upper():
                continue
            if any(is_null(sc.attr_type(a['src'], k), row.get(k)) for k in a['src_keys']):
                for cn2, row2 in rows:
                    if cn2.upper() == a['tgt'].upper() and all(
                            _null_eq(row.get(sk), row2.get(tk), sc.attr_type(a['src'], sk))
                            for sk, tk in zip(a['src_keys'], a['tgt_keys'])):
                        null_match = True
    m2 = gen_schema.build_api(schema_js)
    real = {}
    src_m = None
    if how == 'clone':
        src_m, _t = popgen.load_rows(schema_js, rows)
        src_insts = {}
        for c in sc.classes:
            for k, inst in enumerate(src_m.select_many(c['name'])):
                src_insts[(c['name'].upper(), k)] = inst
    try:
        for r in order:
            row = rowof[(r.cls.upper(), pos[r.idx])]
            if how == 'new-kw':
                vals = dict((n, row.get(n)) for n, t in sc.attrs(r.cls) if row.get(n) is not None)
                late = dict((k, v) for k, v in vals.items() if k in ('self', 'kind'))
                inst = m2.new(r.cls, **dict((k, v) for k, v in vals.items() if k not in late))
                for k, v in late.items():
                    setattr(inst, k, v)
            elif how == 'new-pos':
                inst = m2.new(r.cls, *[row.get(n) if row.get(n) is not None else default_of(t) for n, t in sc.attrs(r.cls)])
            else:
                inst = m2.clone(src_insts[(r.cls.upper(), pos[r.idx])])
            real[r.idx] = inst
    except Exception as e:
        b = 'api-%s:exception:%s' % (how.split('-')[0], exc_bucket(e))
        if any(r.cls.upper() in (a['src'].upper(), a['tgt'].upper()) for a in phrase_shapes):
            b = 'api-equivalence:phrase-bearing-association'
        elif null_match:
            b = 'api-equivalence:null-key-linked'
        raise Violation(b, case, repr(e))
    back = dict((id(v), k) for k, v in real.items())
    for i, a in enumerate(sc.assocs):
        for r in recs_all:
            if r.cls.upper() != a['src'].upper():
                continue
            want = sorted(p.idx for p in sh.partners(i, r, True))
            got = sorted(back.get(id(x), -1) for x in xtuml.navigate_many(real[r.idx]).nav(a['tgt'], a['rel'], a['src_phrase'])())
            if got != want:
                if a['src_phrase'] != a['tgt_phrase']:
                    b = 'api-equivalence:phrase-bearing-association'
                elif null_match:
                    b = 'api-equivalence:null-key-linked'
                else:
                    b = 'api-equivalence:%s:%s' % (how, a['shape'])
                raise Violation(b, case, '%s: R%d from %r linked to %r, loader/key-join links %r' % (how, a['rel'], r, got, want))
    return 'api-' + how


def _null_eq(a, b, t):
    return is_null(t, a) and is_null(t, b)


def run_case(case, res=None, tier='quick'):
    schema_js, rows = case['schema'], case['rows']
    sc = Schema(schema_js)
    sstm = schema_statements(schema_js)
    istm = rows_statements(sc, rows, case['named'], case['omit'])
    allstm = sstm + istm
    styles = case['styles']
    allstm = [render(s, styles[k % len(styles)]) for k, s in enumerate(allstm)]

    def fail(bucket, detail):
        raise Violation(bucket, case, detail)

    # base: schema first, rows in statement order, one input
    try:
        m = load_chunks(['\n'.join(allstm)])
    except Exception as e:
        fail('load-exception:' + exc_bucket(e), repr(e))
    sh = check_join(m, schema_js, rows, case, 'base')
    base = canon(m)
    nconf = 1
    perms = [list(p) for p in case['perms']]
    if tier == 'thorough' and len(allstm) <= 6:
        perms = [list(p) for p in itertools.permutations(range(len(allstm)))]
    for p in perms:
        if sorted(p) != list(range(len(allstm))):
            continue
        seq = [allstm[i] for i in p]
        chunks = ['\n'.join(c) for c in split(seq, set(case['cuts']))]
        files = []
        try:
            if case['files']:
                for k, c in enumerate(chunks):
                    fn = os.path.join(build.tmpdir(), 'c03-%d-%d.sql' % (os.getpid(), k))
                    with open(fn, 'w') as f:
                        f.write(c)
                    files.append(fn)
                mp = xtuml.load_metamodel(files)
            else:
                mp = load_chunks(chunks)
        except Exception as e:
            fail('permuted-load-exception:' + exc_bucket(e), repr(e))
        finally:
            for fn in files:
                os.unlink(fn)
        got = canon(mp)
        if got != base:
            which = [k for k in base if base[k] != got[k]]
            fail('order-dependent:%s' % '+'.join(which), 'permutation %r cuts %r: %s differ: %r vs %r'
                 % (p, case['cuts'], which, {k: base[k] for k in which}, {k: got[k] for k in which}))
        # the join definition holds for the permuted model as well (rows in their permuted statement order)
        prow = [rows[i - len(sstm)] for i in p if i >= len(sstm)]
        check_join(mp, schema_js, prow, case, 'permuted')
        nconf += 1
    tag = 'none'
    if case['api'] != 'none':
        tag = api_route(case, schema_js, rows, sh, case['api'])
    if res is not None:
        multi = any(len(a['src_keys']) > 1 or sc.attr_type(a['src'], a['src_keys'][0]) != 'UNIQUE_ID' for a in sc.assocs)
        nullish = False
        for i, a in enumerate(sc.assocs):
            for cn, row in rows:
                if cn.upper() == a['src'].upper():
                    if any(is_null(sc.attr_type(a['src'], k), row.get(k)) for k in a['src_keys']):
                        nullish = True
            srcs = [r for r in sh.recs if r.cls.upper() == a['src'].upper()]
            if any(not sh.partners(i, r, True) for r in srcs):
                nullish = True
        nt = multi and nullish and nconf >= 2
        cl = ['api:' + tag] + ['shape-' + a['shape'] for a in sc.assocs]
        if any(len(sh.links[i]) for i in range(len(sc.assocs))):
            cl.append('has-links')
        for cdef in sc.classes:
            if any(len(v) > 1 for v in sc.referentials(cdef['name']).values()):
                cl.append('shared-referential')
                for i, a in enumerate(sc.assocs):
                    if a['src'] == cdef['name'] and sh.links[i] and any(len(sc.referentials(cdef['name'])[k]) > 1 for k in a['src_keys']):
                        cl.append('shared-referential-linked')
        res.case([schema_js, rows], nt, sample={'statements': allstm} if nt and len(repr(allstm)) < 1800 else None,
                 classes=sorted(set(cl)))


# -- inferred schema -------------------------------------------------------------------------------------

@st.composite
def inferred_cases(draw):
    schema_js = draw(gen_schema.schemas(max_classes=3, max_assocs=1, max_extra_attrs=3))
    rows = [list(r) for r in draw(popgen.dirty_rows(schema_js, max_rows=3, min_rows=1))]
    return {'inferred': True, 'schema': schema_js, 'rows': rows,
            'perms': [list(draw(st.permutations(list(range(len(rows)))))) for _ in range(3)],
            'cuts': sorted(draw(st.sets(st.integers(0, max(len(rows) - 1, 0)), max_size=3)))}


def run_inferred(case, res=None):
    sc = Schema(case['schema'])
    rows = case['rows']
    stm = [insert_statement(sc, cn, row) for cn, row in rows]

    def canon_inf(m):
        d = {}
        for K, mc in m.metaclasses.items():
            d[K] = sorted(repr([_norm(getattr(i, n)) for n, _ in mc.attributes]) for i in m.select_many(mc.kind))
        return d
    try:
        base = canon_inf(load_chunks(['\n'.join(stm)]))
    except Exception as e:
        raise Violation('inferred:load-exception:' + exc_bucket(e), case, repr(e))
    want = {}
    for cn, row in rows:
        vals = []
        for n, t in sc.attrs(cn):
            v = row.get(n)
            T = t.upper()
            if T == 'BOOLEAN':
                v = int(v)                       # written as 0/1, inferred as INTEGER
            elif T == 'REAL':
                v = '%f' % v
            vals.append(v)
        want.setdefault(cn.upper(), []).append(repr(vals))
    want = dict((k, sorted(v)) for k, v in want.items())
    if base != want:
        raise Violation('inferred:values', case, 'got %r want %r' % (base, want))
    n = 1
    for p in case['perms']:
        seq = [stm[i] for i in p]
        chunks = ['\n'.join(c) for c in split(seq, set(case['cuts']))]
        try:
            got = canon_inf(load_chunks(chunks))
        except Exception as e:
            raise Violation('inferred:permuted-load-exception:' + exc_bucket(e), case, repr(e))
        if got != base:
            raise Violation('inferred:order-dependent', case, 'perm %r: %r vs %r' % (p, got, base))
        n += 1
    if res is not None:
        res.case(case, len(rows) >= 3, classes=('inferred-schema',))


# -- bridgepoint containers ---------------------------------------------------------------------------------

OOA_CLASSES = ['S_DT', 'S_CDT', 'S_UDT', 'S_EDT', 'S_ENUM', 'PE_PE', 'EP_PKG']
_sub = {}


def ooa_subschema():
    if not _sub:
        from .c11_consistency import ooa_schema
        full, _g = ooa_schema()
        keep = set(OOA_CLASSES)
        _sub['skip'] = set((a['src'], k) for a in full['assocs'] if a['src'] in keep and a['tgt'] not in keep
                           for k in a['src_keys'])
        _sub['js'] = {'classes': [c for c in full['classes'] if c['name'] in keep],
                      'assocs': [dict(a, shape='simple') for a in full['assocs'] if a['src'] in keep and a['tgt'] in keep],
                      'uniques': [u for u in full['uniques'] if u['cls'] in keep]}
    return _sub['js']


@st.composite
def container_cases(draw):
    js = ooa_subschema()
    rows = [list(r) for r in draw(popgen.dirty_rows(js, max_rows=3))]
    n = len(rows)
    return {'container': True, 'rows': rows, 'perm': list(draw(st.permutations(list(range(n))))),
            'cuts': sorted(draw(st.sets(st.integers(0, max(n - 1, 0)), max_size=4))),
            'dirs': draw(st.lists(st.sampled_from(['', 'a', 'a/b', 'c', 'a/b/d e']), min_size=1, max_size=5)),
            'decoy': draw(st.booleans())}


def run_container(case, res=None):
    from bridgepoint import ooaofooa
    js = ooa_subschema()
    sc = Schema(js)
    rows = case['rows']
    stm = [insert_statement(sc, cn, row) for cn, row in rows]

    def fail(bucket, detail):
        raise Violation(bucket, case, detail)
    root = os.path.join(build.tmpdir(), 'c03c-%d' % os.getpid())
    shutil.rmtree(root, ignore_errors=True)
    os.makedirs(root)
    try:
        single = os.path.join(root, 'all.xtuml')
        with open(single, 'w') as f:
            f.write('\n'.join(stm) + '\n')
        l = ooaofooa.ModelLoader(load_globals=False)
        l.filename_input(single)
        m0 = l.build_metamodel(xtuml.IntegerGenerator())
        sh = check_join(m0, js, rows, case, 'container-single', skip_attrs=_sub['skip'])
        base = canon_sub(m0)
        seq = [stm[i] for i in case['perm']]
        chunks = split(seq, set(case['cuts']))
        tree = os.path.join(root, 'tree')
        os.makedirs(tree)
        names = []
        for k, c in enumerate(chunks):
            d = os.path.join(tree, case['dirs'][k % len(case['dirs'])])
            os.makedirs(d, exist_ok=True)
            fn = os.path.join(d, 'part%d.xtuml' % k)
            with open(fn, 'w') as f:
                f.write('\n'.join(c) + '\n')
            names.append(os.path.relpath(fn, tree))
        if case['decoy']:
            with open(os.path.join(tree, 'ignored.txt'), 'w') as f:
                f.write("INSERT INTO S_DT VALUES (this is not sql);\n")
        l = ooaofooa.ModelLoader(load_globals=False)
        l.filename_input(tree)
        md = l.build_metamodel(xtuml.IntegerGenerator())
        if canon_sub(md) != base:
            fail('container:directory-differs', 'directory tree %r gives another model' % names)
        zp = os.path.join(root, 'model.zip')
        with zipfile.ZipFile(zp, 'w') as z:
            for n in names:
                z.write(os.path.join(tree, n), n)
            if case['decoy']:
                z.write(os.path.join(tree, 'ignored.txt'), 'ignored.txt')
        l = ooaofooa.ModelLoader(load_globals=False)
        l.filename_input(zp)
        mz = l.build_metamodel(xtuml.IntegerGenerator())
        if canon_sub(mz) != base:
            fail('container:zip-differs', 'zip archive %r gives another model' % names)
        # one loader, several containers: every chunk in an archive (or file) of its own, and every archive names its
        # member alike - what was read from one container says nothing about the next
        mixed = os.path.join(root, 'mixed')
        os.makedirs(mixed)
        l = ooaofooa.ModelLoader(load_globals=False)
        for k, c in enumerate(chunks):
            if k % 3 == 2:
                d = os.path.join(mixed, 'dir%d' % k)
                os.makedirs(d)
                with open(os.path.join(d, 'model.xtuml'), 'w') as f:
                    f.write('\n'.join(c) + '\n')
                l.filename_input(d if k % 2 else os.path.join(d, 'model.xtuml'))
            else:
                zk = os.path.join(mixed, 'part%d.zip' % k)
                with zipfile.ZipFile(zk, 'w') as z:
                    z.writestr('model/model.xtuml', '\n'.join(c) + '\n')
                l.filename_input(zk)
        mm = l.build_metamodel(xtuml.IntegerGenerator())
        if canon_sub(mm) != base:
            fail('container:several-containers-differ', '%d containers with like-named members give another model' % len(chunks))
    except Violation:
        raise
    except Exception as e:
        fail('container:exception:' + exc_bucket(e), repr(e))
    finally:
        shutil.rmtree(root, ignore_errors=True)
    if res is not None:
        res.case(case, len(rows) >= 3 and len(chunks) >= 2, classes=('container',),
                 sample={'files': names, 'rows': len(rows)} if len(chunks) >= 2 else None)


def canon_sub(m):
    d = {'instances': {}, 'links': {}}
    for K in OOA_CLASSES:
        mc = m.find_metaclass(K)
        d['instances'][K] = sorted(repr([_norm(getattr(i, n)) for n, _ in mc.attributes]) for i in m.select_many(K))
    keep = set(OOA_CLASSES)
    for ass in m.associations:
        sk, tk = ass.source_link.to_metaclass, ass.target_link.to_metaclass
        if sk.kind not in keep or tk.kind not in keep:
            continue
        key = repr([ass.rel_id, sk.kind, tk.kind, ass.target_link.phrase])
        pairs = []
        for s in m.select_many(sk.kind):
            for t in xtuml.navigate_many(s).nav(tk.kind, ass.rel_id, ass.target_link.phrase)():
                pairs.append(repr([[_norm(getattr(s, n)) for n, _ in sk.attributes], [_norm(getattr(t, n)) for n, _ in tk.attributes]]))
        d['links'][key] = sorted(pairs)
    return d


def selftest():
    from . import c02_links
    js = c02_links.FIXED['many2one_int']
    rows = [['A', {'Nr': 0, 'Name': 'a'}], ['A', {'Nr': 1, 'Name': ''}],
            ['B', {'Id': 1, 'A_Nr': 0, 'A_Name': 'a'}], ['B', {'Id': 2, 'A_Nr': 1, 'A_Name': ''}],
            ['B', {'Id': 3, 'A_Nr': 0, 'A_Name': 'A'}]]
    sh, recs = popgen.shadow_from_rows(js, rows)
    # integer 0 is a value, empty string is null, 'A' != 'a'
    assert [(s.idx, t.idx) for s, t in sh.links[0]] == [(2, 0)], sh.links[0]
    assert split([1, 2, 3, 4], {0, 2}) == [[1], [2, 3], [4]]


def run(ctx):
    res = Res()

    def body(case):
        try:
            if case.get('inferred'):
                run_inferred(case, res)
            elif case.get('container'):
                run_container(case, res)
            else:
                run_case(case, res, ctx.tier)
        except Violation:
            raise
        except Exception as e:
            raise Violation('harness-exception:' + exc_bucket(e), case, repr(e))

    hyp_run(ctx, res, cases(), body, ctx.pick(1500, 3000), label='populations')
    hyp_run(ctx, res, inferred_cases(), body, ctx.pick(100, 500), label='inferred')
    hyp_run(ctx, res, container_cases(), body, ctx.pick(60, 200), label='containers')
    return res


def replay(case):
    if case.get('inferred'):
        run_inferred(case)
    elif case.get('container'):
        run_container(case)
    else:
        run_case(case)
