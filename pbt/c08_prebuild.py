"""C08 part (3): prebuilt instances are independent of keyword case."""
import collections

from hypothesis import strategies as st

from . import oalsyn, prebuildfix
from .oalgen import Printer, render
from .core import Violation, hyp_run, exc_bucket

SKIP_ATTRS = set(['Label', 'LineNumber', 'StartPosition', 'EndPosition'])


def cased_text(body, case_list, recorder):
    base = oalsyn.caser(case_list)

    def case(word):
        out = base(word)
        recorder.append((word, out))
        return out
    p = Printer(choose=lambda key, options: options[0], case=case)
    p.block(body['block'])
    gaps = []
    for i, (text, kind) in enumerate(p.toks):
        prev = p.toks[i - 1][0] if i else None
        gaps.append('\n' if prev == ';' else (' ' if i else ''))
    return render(p.toks, gaps)[0]


def population(m):
    """attribute multisets of every Body / Value / Event subsystem instance, without ids, positions and source text"""
    out = {}
    dtname = dict((d.DT_ID, d.Name) for d in m.select_many('S_DT'))
    for K, mc in m.metaclasses.items():
        if not (K.startswith('ACT_') or K.startswith('V_') or K.startswith('E_')):
            continue
        insts = m.select_many(K)
        if not insts:
            continue
        rows = []
        for i in insts:
            row = []
            for n, t in mc.attributes:
                if n.endswith('DT_ID'):
                    # the data type an instance is linked to (R820 of a value, R848 of a variable ...), by name
                    row.append((n, dtname.get(getattr(i, n))))
                    continue
                if t.upper() == 'UNIQUE_ID' or n in SKIP_ATTRS or 'LineNumber' in n or 'Column' in n:
                    continue
                if n in mc.referential_attributes:
                    continue
                row.append((n, getattr(i, n)))
            rows.append(repr(row))
        out[K] = collections.Counter(rows)
    return out


def run_case(case, res=None):
    from .c08_case import SEMANTIC
    try:
        fx = prebuildfix.Fixture(case['tape'])
    except Exception as e:
        raise Violation('fixture-exception:' + exc_bucket(e), case, repr(e))
    try:
        fx.prebuild()
    except Exception as e:
        raise Violation('lower-case-prebuild-exception:' + exc_bucket(e), dict(case, prebuild=True), repr(e))
    p1 = population(fx.m)
    # the drawn spelling of every keyword occurrence, and every keyword in upper case at once
    for variant in (case['case'], [1]):
        compare_variant(case, fx, p1, variant, res)


def compare_variant(case, fx, p1, variant, res):
    from .c08_case import SEMANTIC
    try:
        rec = []
        texts = {}
        for c in fx.callables:
            texts[c.key] = cased_text(c.body, variant, rec)
        fx2 = prebuildfix.Fixture(case['tape'], texts=texts)
    except Exception as e:
        raise Violation('fixture-exception:' + exc_bucket(e), case, repr(e))
    info = dict(case, prebuild=True, bodies=texts, variant=variant)

    def fail(bucket, detail):
        raise Violation(bucket, info, detail)
    try:
        fx2.prebuild()
    except Exception as e:
        fail('recased-prebuild-exception:' + exc_bucket(e), repr(e))
    p2 = population(fx2.m)
    if sorted(p1) != sorted(p2):
        fail('recased-prebuild-other-classes', 'only lower %r, only recased %r' % (sorted(set(p1) - set(p2)), sorted(set(p2) - set(p1))))
    for K in p1:
        if p1[K] != p2[K]:
            a = list((p1[K] - p2[K]).elements())[:2]
            b = list((p2[K] - p1[K]).elements())[:2]
            fail('recased-prebuild-attribute:%s' % K, '%s: lower-case source gives %r, re-cased source gives %r' % (K, a, b))
    for c in fx.callables:
        t1, t2 = fx.generated_text(c), fx2.generated_text(c)
        if t1 != t2:
            fail('recased-prebuild-structure', 'generated text differs for %s:\n%s\n---\n%s' % (c.name, t1, t2))
    if res is not None:
        sd = sorted(set(w for w, o in rec if o != w and w in SEMANTIC))
        res.case(['prebuild', case['tape'], variant], bool(sd), classes=['prebuild'] + ['kw:' + w for w in sd],
                 sample={'recased': list(texts.values())[0][:500]} if sd else None)


def run_part(ctx, res):
    def body(case):
        try:
            run_case(case, res)
        except Violation:
            raise
        except Exception as e:
            raise Violation('harness-exception:' + exc_bucket(e), case, repr(e))
    strat = st.fixed_dictionaries({'tape': oalsyn.tapes(900, 120), 'case': st.lists(st.integers(0, 3), min_size=1, max_size=25)})
    hyp_run(ctx, res, strat, body, ctx.pick(50, 400), label='prebuild')


def replay(case):
    run_case(case)
