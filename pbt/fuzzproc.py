"""Coverage-guided campaign (atheris / libFuzzer) over one parser entry, run as a sub-process of a check:

    python -m pbt.fuzzproc <target> --execs N --seed S --out FILE --corpus DIR

target 'oal'  : bridgepoint.oal.parse       oracle = c13_positions.parse_total + self_consistent
target 'sql'  : xtuml.ModelLoader.input ... oracle = c12_loadfail.run_history (1-3 inputs on one loader, build after each)

The grammar actions (p_* functions), the PLY driver and the lexer callbacks are Python code, so libFuzzer sees which
productions a text reduces; the token regular expressions themselves run in C and give no gradient, which is why the
mutator works on tokens (insert / replace / delete / duplicate / splice of the target's token alphabet) half of the time
and on bytes (libFuzzer's own mutations) the other half.

The oracle runs inside the target.  A failing input is recorded under its bucket (first = smallest seen) and from then on
counted and skipped, so one shallow defect does not end the campaign.  The process ends itself after N executions of the
oracle and writes FILE (JSON) - libFuzzer's own exit path skips Python's atexit.
"""
import argparse
import json
import os
import random
import sys
import time


def main():
    ap = argparse.ArgumentParser()
    ap.add_argument('target', choices=['oal', 'sql'])
    ap.add_argument('--execs', type=int, default=20000)
    ap.add_argument('--seed', type=int, default=1)
    ap.add_argument('--out', required=True)
    ap.add_argument('--corpus', required=True)
    ap.add_argument('--empty-corpus', action='store_true')
    ap.add_argument('--excluded', default='')
    args = ap.parse_args()

    import atheris
    from . import build
    names = {'oal': ['bridgepoint.oal', 'ply.yacc', 'ply.lex'], 'sql': ['xtuml.load', 'ply.yacc', 'ply.lex']}[args.target]
    for n in list(sys.modules):
        if n == 'ply' or n.startswith('ply.'):
            del sys.modules[n]
    with atheris.instrument_imports(include=names, enable_loader_override=False):
        build.setup()
    from . import core
    from .core import Violation

    if args.target == 'oal':
        from . import c13_positions as mod, oalsyn
        alphabet = mod.SOUP
        token_re = mod.TOKEN_RE

        def oracle(text):
            case = {'kind': 'fuzz', 'text': text}
            out, root = mod.parse_total(text, case)
            n = mod.self_consistent(root, text, case) if out == 'ok' else 0
            return out + ('-with-positions' if n else '')

        def seeds():
            rnd = random.Random(args.seed)
            out = []
            from hypothesis import strategies as st, seed as hseed, settings, given, HealthCheck, Phase

            @hseed(args.seed)
            @settings(max_examples=40, database=None, deadline=None, phases=(Phase.generate,),
                      suppress_health_check=list(HealthCheck))
            @given(oalsyn.tapes(120, 12), oalsyn.layouts())
            def collect(tape, lay):
                try:
                    out.append(mod.generated_text(tape, lay))
                except Exception:
                    pass
            collect()
            rnd.shuffle(out)
            return [t for t in out if len(t) < 600][:24]
    else:
        from . import c12_loadfail as mod
        alphabet = mod.SOUP
        token_re = mod.TOK

        def oracle(text):
            inputs = text.split('\x1e')[:3]
            case = {'kind': 'fuzz', 'inputs': inputs, 'builds': [True]}
            r = core.Res()
            mod.run_history(case, r)
            return '+'.join(sorted(k for k in r.classes if k != 'fuzz')) or 'plain'

        def seeds():
            out = ['CREATE TABLE X (Id INTEGER, S STRING);\nINSERT INTO X VALUES (1, \'a\');\n',
                   'CREATE TABLE X (Id UNIQUE_ID, B BOOLEAN, R REAL);\nCREATE TABLE Y (Id UNIQUE_ID, X_Id UNIQUE_ID);\n'
                   'CREATE ROP REF_ID R1 FROM MC Y (X_Id) TO 1 X (Id);\nCREATE UNIQUE INDEX I1 ON X (Id);\n'
                   'INSERT INTO X VALUES ("00000000-0000-0000-0000-000000000001", TRUE, -1.5);\n'
                   'INSERT INTO Y (Id, X_Id) VALUES ("00000000-0000-0000-0000-000000000002", "00000000-0000-0000-0000-000000000001");\n',
                   "INSERT INTO X VALUES (1);\x1eINSERT INTO X VALUES (,);\x1eCREATE TABLE X (Id INTEGER);"]
            out += [c for c in mod.seed_chunks() if len(c) < 800][:12]
            return out

    excluded = set(x for x in args.excluded.split('\x1f') if x)
    stats = {'target': args.target, 'execs': 0, 'outcomes': {}, 'excluded': {}, 'violations': [], 'samples': [],
             'distinct': 0, 'longest': 0, 't0': time.time()}
    seen = set()
    found = {}

    def flush(done=False):
        stats['wall_s'] = round(time.time() - stats['t0'], 2)
        stats['done'] = done
        stats['violations'] = list(found.values())
        tmp = args.out + '.tmp'
        with open(tmp, 'w') as f:
            json.dump(stats, f, ensure_ascii=True)
        os.replace(tmp, args.out)

    def one(data):
        try:
            text = data.decode('utf-8')
        except UnicodeDecodeError:
            text = data.decode('latin-1')
        stats['execs'] += 1
        try:
            out = oracle(text)
        except Violation as v:
            out = 'violation'
            if v.bucket in excluded:
                stats['excluded'][v.bucket] = stats['excluded'].get(v.bucket, 0) + 1
            else:
                old = found.get(v.bucket)
                if old is None or len(text) < old['size']:
                    found[v.bucket] = {'bucket': v.bucket, 'case': core.jsonable(v.case), 'detail': core.clip(v.detail, 2000),
                                       'size': len(text), 'count': (old or {}).get('count', 0) + 1}
                    flush()
                else:
                    old['count'] += 1
        stats['outcomes'][out] = stats['outcomes'].get(out, 0) + 1
        h = hash(text)
        if h not in seen and len(seen) < 2000000:
            seen.add(h)
            stats['distinct'] = len(seen)
        stats['longest'] = max(stats['longest'], len(text))
        if (out.startswith('ok') or 'accepted-and-built' in out) and len(stats['samples']) < 6 and 20 < len(text) < 300 and stats['execs'] > 200:
            stats['samples'].append(text)
        if stats['execs'] >= args.execs:
            flush(True)
            sys.stdout.flush()
            os._exit(0)
        if stats['execs'] % 2000 == 0:
            flush()

    def mutate(data, max_size, seed):
        rnd = random.Random(seed)
        if rnd.random() < 0.5:
            return atheris.Mutate(data, max_size)
        try:
            text = data.decode('utf-8')
        except UnicodeDecodeError:
            return atheris.Mutate(data, max_size)
        spans = [m.span() for m in token_re.finditer(text)]
        tok = rnd.choice(alphabet)
        if not spans:
            text = tok
        else:
            a, b = rnd.choice(spans)
            k = rnd.randrange(6)
            if k == 0:
                text = text[:a] + tok + ' ' + text[a:]
            elif k == 1:
                text = text[:a] + tok + text[b:]
            elif k == 2:
                text = text[:a] + text[b:]
            elif k == 3:
                text = text[:b] + ' ' + text[a:b] + text[b:]
            elif k == 4:
                c, d = rnd.choice(spans)
                lo, hi = min(a, c), max(b, d)
                text = text[:lo] + text[lo:hi] + ' ' + text[lo:hi] + text[hi:]      # duplicate a stretch of tokens
            else:
                c, d = rnd.choice(spans)
                if b <= c:
                    text = text[:a] + text[c:d] + text[b:c] + text[a:b] + text[d:]
        out = text.encode('utf-8', 'replace')
        return out[:max_size]

    os.makedirs(args.corpus, exist_ok=True)
    if not args.empty_corpus:
        for i, t in enumerate(seeds()):
            with open(os.path.join(args.corpus, 'seed-%03d' % i), 'wb') as f:
                f.write(t.encode('utf-8', 'replace'))
    flush()
    argv = [sys.argv[0], args.corpus, '-seed=%d' % (args.seed % (2 ** 31 - 1) + 1), '-runs=%d' % (args.execs * 4 + 1000),
            '-max_len=700', '-timeout=0', '-print_final_stats=0', '-verbosity=0', '-close_fd_mask=0',
            '-len_control=50', '-rss_limit_mb=4096']
    atheris.Setup(argv, one, custom_mutator=mutate)
    atheris.Fuzz()
    flush(True)
    os._exit(0)


if __name__ == '__main__':
    main()
