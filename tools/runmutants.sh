#!/bin/bash
# tools/runmutants.sh [pattern] [--record]  -- runs every mutants/<Cxx>-*.diff against check Cxx (quick tier), 6 in parallel.
# With --record the outcome table is written to mutants/RESULTS.json.
cd "$(dirname "$0")/.."
pat=""; rec=0
for a in "$@"; do if [ "$a" = "--record" ]; then rec=1; else pat="$a"; fi; done
tmp=$(mktemp /tmp/mutres-XXXXXX)
ls mutants/*.diff | grep "$pat" | xargs -P 6 -I{} bash -c 'f={}; c=$(basename $f | cut -d- -f1); out=$(MUT_LINES=3 tools/mutant.sh $f $c 2>&1 | head -4 | tr "\n" " " | cut -c1-260); echo "$(basename $f .diff): $out"' | tee $tmp
if [ $rec = 1 ]; then
python3 - "$tmp" <<'PY'
import json, re, sys
res = {}
for line in open(sys.argv[1]):
    name, _, rest = line.partition(': ')
    m = re.search(r'exit=(\d+)', rest)
    b = re.search(r'bucket: (\S+)', rest)
    res[name] = {'detected': bool(m and m.group(1) == '1'), 'exit': int(m.group(1)) if m else None, 'first_bucket': b.group(1) if b else None}
import os
if os.path.exists('mutants/RESULTS.json'):
    old = json.load(open('mutants/RESULTS.json'))['results']     # a run restricted by a pattern updates its entries only
    old.update(res)
    res = dict((k, v) for k, v in old.items() if os.path.exists('mutants/%s.diff' % k))
json.dump({'tier': 'quick', 'results': res, 'detected': sum(1 for v in res.values() if v['detected']), 'total': len(res)},
          open('mutants/RESULTS.json', 'w'), indent=1, sort_keys=True)
print('recorded', sum(1 for v in res.values() if v['detected']), 'of', len(res))
PY
fi
rm -f $tmp
