#!/bin/bash
# Offline setup: make sure hypothesis and ply are importable in /venv.
set -u
cd "$(dirname "$0")/.." || exit 2
export PIP_NO_INDEX=1
PY=/venv/bin/python
if ! "$PY" -c 'import hypothesis' 2>/dev/null; then
    /venv/bin/pip install --no-index --find-links /opt/veriftools/wheels hypothesis || exit 2
fi
# atheris (coverage-guided part of C12 / C13) goes beside, not into, the repository's environment
if [ ! -d .deps/atheris ]; then
    /venv/bin/pip install -q --no-index --find-links /opt/veriftools/wheels --target .deps atheris || echo "atheris not installable: the coverage-guided parts of C12/C13 will be skipped (noted in their evidence)"
fi
"$PY" -c 'import hypothesis, ply; print("hypothesis", hypothesis.__version__, "ply", ply.__version__)' || exit 2
chmod +x check
mkdir -p evidence replays .build
exit 0
