#!/bin/bash
# tools/mutant.sh <patch.diff> <Cxx> [Cxx...]  -- run checks against a scratch copy of /repo with the patch applied.
# Evidence/replays of the mutant run go to a scratch dir; /repo and /verif/evidence are untouched.
set -u
patch=$(realpath "$1"); shift
work=$(mktemp -d /tmp/mut-XXXXXX)
trap 'rm -rf "$work"' EXIT
rsync -a --exclude .git --exclude __pycache__ /repo/ "$work/repo/"
( cd "$work/repo" && git init -q . 2>/dev/null; patch -p1 -s < "$patch" ) || { echo "patch failed"; exit 2; }
rc=0
for c in "$@"; do
  VERIF_REPO="$work/repo" VERIF_OUT="$work/out" timeout "${MUT_TIMEOUT:-1200}" "$(dirname "$(realpath "$0")")/../check" "$c" --tier "${MUT_TIER:-quick}" > "$work/log" 2>&1
  r=$?
  echo "== $c exit=$r $(grep -c '^VIOLATION' "$work/log") violation(s)"
  grep -A2 '^VIOLATION\|HARNESS' "$work/log" | cut -c1-400 | head -${MUT_LINES:-12}
  [ $r -eq 1 ] || rc=1
done
exit $rc
