"""C09 - queries and navigations return exactly the matching instances in model order."""
from hypothesis import strategies as st

import xtuml
from . import gen_schema, popgen
from .core import Violation, hyp_run, Res, exc_bucket
from .gen_schema import Schema
from .machine import Runner
from . import c02_links

PROPERTY = 'C09'
RULE = ('model states reached (a) by the operation histories of C02 through the API and (b) by loading dirty SQL '
        'populations (null, dangling and duplicate keys), each followed by 1-8 drawn queries: select_many / '
        'select_one / select_any with a sequence of where_eq (1-3 attributes incl. referential ones), dict filters, '
        'predicate functions, order_by / reverse_order_by on 1-2 attributes (ties frequent); navigation chains of '
        "1-4 hops via .nav() and the X[n, 'phrase'] syntax from None, an instance, a QuerySet, a list or a generator, "
        'through association classes (direct class-to-class hop) and reflexive phrases, with filters, in many/one/any '
        'form (a quarter of the states are models populated before their associations were formalised - raw values in the referential attributes, batch_relate + formalize - in which instances are then moved to other partners); navigate_subtype (also after every supertype instance of a history state was moved, one subtype class after the other, to a new subtype instance). Every returned set is then emptied by the caller (a result is a value, not a view of the model); for half of the history states the model is changed a little afterwards (values of a later instance copied to an earlier one, further relate / unrelate / delete calls) and the same queries are asked again. Oracle: evaluation over the plain relational shadow (filter = conjunction in '
        'creation order, stable sort, descending keeps ties in original order, navigation = duplicate-free union in '
        'encounter order). non-trivial = query with >= 2 operators or a chain of >= 2 hops from >= 2 start '
        'instances, with a non-empty expected result and >= 1 candidate filtered out; distinct = by (state, query).')
ASSUMPTIONS = [
    'ordering keys are plain attributes (never None) of one type',
    'navigate_subtype is compared only when exactly one subtype instance is related',
]


@st.composite
def query_specs(draw):
    n = draw(st.integers(1, 8))
    out = []
    for _ in range(n):
        if draw(st.integers(0, 5)) == 0:
            # the everyday lookup: one instance by the value of one plain attribute
            out.append({'kind': 'select', 'cls': draw(st.integers(0, 9)), 'form': draw(st.sampled_from(['one', 'any'])),
                        'ops': [['where-plain', draw(st.integers(0, 9)), draw(st.integers(0, 9)), draw(st.sampled_from(['kw', 'dict', 'altcase']))]],
                        'via': draw(st.sampled_from(['model', 'metaclass']))})
        elif draw(st.booleans()):
            out.append({'kind': 'select', 'cls': draw(st.integers(0, 9)),
                        'form': draw(st.sampled_from(['many', 'many', 'one', 'any'])),
                        'ops': draw(op_specs()), 'via': draw(st.sampled_from(['model', 'metaclass']))})
        else:
            out.append({'kind': 'nav', 'cls': draw(st.integers(0, 9)),
                        'start': draw(st.sampled_from(['none', 'inst', 'set', 'set', 'list', 'gen', 'queryset', 'queryset', 'set', 'inst', 'list', 'gen'])),
                        'picks': draw(st.lists(st.integers(0, 9), min_size=1, max_size=4)),
                        'hops': draw(st.lists(st.integers(0, 20), min_size=1, max_size=4)),
                        'syntax': draw(st.sampled_from(['nav', 'getitem'])),
                        'relstr': draw(st.booleans()),
                        'form': draw(st.sampled_from(['many', 'many', 'one', 'any'])),
                        'ops': draw(op_specs(maxn=2))})
    if draw(st.integers(0, 3)) == 0:
        out.append({'kind': 'subtype', 'pick': draw(st.integers(0, 9))})
    return out


@st.composite
def op_specs(draw, maxn=3):
    ops = []
    for _ in range(draw(st.integers(0, maxn))):
        k = draw(st.integers(0, 5))
        if k <= 1:
            ops.append(['where', draw(st.lists(st.tuples(st.integers(0, 9), st.integers(0, 9)), min_size=1, max_size=3)),
                        draw(st.sampled_from(['kw', 'dict', 'altcase']))])
        elif k == 2:
            ops.append(['lambda', draw(st.integers(0, 9)), draw(st.sampled_from(['==', '!=', 'isnone'])), draw(st.integers(0, 9))])
        elif k <= 4:
            ops.append(['order', draw(st.lists(st.integers(0, 9), min_size=1, max_size=2)), draw(st.booleans())])
        else:
            ops.append(['first2'])
    return ops


@st.composite
def cases(draw):
    if draw(st.booleans()):
        h = draw(c02_links.history_cases())
        h['queries'] = draw(query_specs())
        h['source'] = 'history'
        # after the first pass of queries the model changes a little (values copied from a later instance to an earlier
        # one, further relate / unrelate / delete calls) and the SAME queries are asked again
        h['tail'] = [['copy', draw(st.integers(0, 20)), draw(st.integers(0, 20))] for _ in range(draw(st.integers(0, 3)))]
        k = draw(st.integers(0, 4))
        if k and len(h['ops']) > k:
            h['tail'] += h['ops'][-k:]
            h['ops'] = h['ops'][:-k]
        return h
    if draw(st.integers(0, 3)) == 0:
        # the model is populated BEFORE its associations are formalised (instances hold raw values in the referential
        # attributes; batch_relate + formalize afterwards), then some instances are moved to another partner
        from . import c01_roundtrip
        c = draw(c01_roundtrip.cases())
        return {'source': 'late', 'schema': c['schema'], 'pop': c['pop'], 'drop': c['drop'], 'queries': draw(query_specs()),
                'relink': draw(st.lists(st.tuples(st.integers(0, 30), st.integers(0, 5), st.booleans()), min_size=1, max_size=4))}
    schema_js = draw(gen_schema.schemas(max_classes=3, max_assocs=3, max_extra_attrs=2, key_types=['INTEGER', 'STRING', 'UNIQUE_ID']))
    rows = draw(popgen.dirty_rows(schema_js, max_rows=4))
    return {'source': 'load', 'schema': schema_js, 'rows': [list(r) for r in rows], 'queries': draw(query_specs())}


class Unusable(Exception):
    """the drawn case does not describe a state of the kind meant (counted in discarded)"""


class State(object):
    """real metamodel + shadow + mapping."""

    def __init__(self, case):
        self.case = case
        self.schema = Schema(case['schema'])
        if case['source'] == 'history':
            r = Runner(case['schema'], case=case, via_sql=case.get('via_sql', False), checking=False)
            for it in case['init']:
                r.new(it[0], it[1])
            for op in case['ops']:
                if op[0] in ('relate', 'unrelate'):
                    op = c02_links.resolve_cls_refs(r, op)
                    if op is None:
                        continue
                op = c02_links.normalise(r, op)
                if op is None:
                    continue
                r.apply(op)
            self.m, self.sh = r.m, r.sh
            self.runner = r
            self.found = []
            self.found_kv = {}
            self.real = dict((rec.idx, r.real[rec.idx]) for rec in r.sh.recs)
        elif case['source'] == 'late':
            from . import c01_roundtrip
            from .shadow import Rejected
            c = {'schema': case['schema'], 'pop': case['pop'], 'late': True, 'drop': case.get('drop', []), 'unset': [], 'edits': []}
            if case['pop'].get('unresolvable'):
                raise Unusable('population not expressible by key values')
            sh0, recs0 = popgen.shadow_from_links(case['schema'], case['pop']['rows'], case['pop']['links'])
            for i, s_, t_ in case['pop']['links']:
                a = self.schema.assocs[i]
                if any(sh0.attr(recs0[a['tgt'].upper()][t_], k) is None for k in a['tgt_keys']):
                    raise Unusable('late: a link rests on unset key values')
            self.m, insts = c01_roundtrip.build_m0_late(c)
            links = c01_roundtrip.final_links(c)
            self.sh, recs = popgen.shadow_from_links(case['schema'], case['pop']['rows'], links)
            self.real = {}
            for K, rs in recs.items():
                for k, rec in enumerate(rs):
                    self.real[rec.idx] = insts[K][k]
            self.relinked = 0
            for li, tk, back in case.get('relink', []):
                if not links:
                    break
                i, s_, t_ = links[li % len(links)]
                a = self.schema.assocs[i]
                srec, trec = recs[a['src'].upper()][s_], recs[a['tgt'].upper()][t_]
                if not any(p is trec for p in self.sh.partners(i, srec, True)):
                    continue
                others = [r for r in recs[a['tgt'].upper()] if r is not trec and r.alive]
                self.sh.unrelate(srec, trec, a['rel'], a['src_phrase'])
                xtuml.unrelate(self.real[srec.idx], self.real[trec.idx], a['rel'], a['src_phrase'])
                self.relinked += 1
                if others and not back:
                    t2 = others[tk % len(others)]
                    if any(self.sh.attr(t2, k) is None for k in a['tgt_keys']):
                        continue
                    try:
                        if self.sh.relate(srec, t2, a['rel'], a['src_phrase']) != 'linked':
                            continue
                    except Rejected:
                        continue
                    xtuml.relate(self.real[srec.idx], self.real[t2.idx], a['rel'], a['src_phrase'])
        else:
            self.m, _text = popgen.load_rows(case['schema'], case['rows'])
            self.sh, recs = popgen.shadow_from_rows(case['schema'], case['rows'])
            self.real = {}
            for c in self.schema.classes:
                insts = list(self.m.select_many(c['name']))
                rs = recs.get(c['name'].upper(), [])
                if len(insts) != len(rs):
                    raise Violation('loaded-instance-count', case, '%s: %d instances, %d rows' % (c['name'], len(insts), len(rs)))
                for i, rec in zip(insts, rs):
                    self.real[rec.idx] = i

    def idx(self, inst):
        for k, v in self.real.items():
            if v is inst:
                return k
        return None


def apply_tail(st_, case):
    """-> number of changes made to model and shadow alike"""
    r = st_.runner
    n = 0
    for op in case.get('tail', []):
        if op[0] == 'copy':
            live = [rec for rec in r.sh.recs if rec.alive]
            if len(live) < 2:
                continue
            found = [rec for rec in getattr(st_, 'found', []) if rec.alive and any(e.alive and e.cls == rec.cls and e.idx < rec.idx for e in live)]
            if found:
                # an instance created before the one a select one / any just returned becomes its equal
                b = found[op[1] % len(found)]
                earlier = [e for e in live if e.cls == b.cls and e.idx < b.idx]
                a = earlier[op[2] % len(earlier)]
            else:
                a, b = live[op[1] % len(live)], live[op[2] % len(live)]
            if a.idx > b.idx:
                a, b = b, a
            if a is b or a.cls != b.cls:
                continue
            ident = set()
            for u in st_.schema.uniques:
                if u['cls'] == a.cls:
                    ident |= set(u['attrs'])
            for x in st_.schema.assocs:
                if x['tgt'] == a.cls:
                    ident |= set(x['tgt_keys'])
            for nme, _t in st_.schema.plain_attrs(a.cls):
                if nme in ident or nme in ('self', 'kind'):
                    continue            # identifying values stay as they are (they carry the links' referential values)
                # the values the query asked for, else those of the later instance
                v = getattr(st_, 'found_kv', {}).get(b.idx, {}).get(nme, b.vals[nme]) if found else b.vals[nme]
                setattr(r.real[a.idx], nme, v)
                a.vals[nme] = v
                n += 1
            continue
        if op[0] in ('relate', 'unrelate'):
            op = c02_links.resolve_cls_refs(r, op)
            if op is None:
                continue
        op = c02_links.normalise(r, op)
        if op is None:
            continue
        r.apply(op)
        n += 1
    st_.real = dict((rec.idx, r.real[rec.idx]) for rec in r.sh.recs)
    return n


def sortable_attrs(st_, cname):
    return [(n, t) for n, t in st_.schema.plain_attrs(cname)]


def value_pool(st_, cname, attr):
    vals = []
    for r in st_.sh.live(cname):
        v = st_.sh.attr(r, attr)
        if not any(type(v) is type(o) and v == o for o in vals):
            vals.append(v)
    t = st_.schema.attr_type(cname, attr)
    for extra in (gen_schema.default_of(t), None):
        if not any(type(extra) is type(o) and extra == o for o in vals):
            vals.append(extra)
    return vals


def altcase(name):
    return name.swapcase()


def build_ops(st_, cname, specs):
    """-> (real operator list, shadow evaluator list, n_ops)"""
    attrs = [n for n, _ in st_.schema.attrs(cname)]
    real_ops, sh_ops = [], []
    for sp in specs:
        if sp[0] == 'where-plain':
            ident = set()
            for u in st_.schema.uniques:
                if u['cls'].upper() == cname.upper():
                    ident |= set(u['attrs'])
            for x in st_.schema.assocs:
                if x['tgt'].upper() == cname.upper():
                    ident |= set(x['tgt_keys'])
            plain = [n for n, _t in st_.schema.plain_attrs(cname) if n not in ('self', 'kind')]
            plain = [n for n in plain if n not in ident] or plain or attrs
            a = plain[sp[1] % len(plain)]
            pool = value_pool(st_, cname, a)
            sp = ['where', [(attrs.index(a), sp[2] % len(pool))], sp[3]]
        if sp[0] == 'where':
            kv = {}
            for k, j in sp[1]:
                a = attrs[k % len(attrs)]
                pool = value_pool(st_, cname, a)
                kv[a] = pool[j % len(pool)]
            if sp[2] == 'kw' and not any(a in ('self',) for a in kv):
                real_ops.append(xtuml.where_eq(**kv))
            elif sp[2] == 'altcase':
                real_ops.append(dict((altcase(a), v) for a, v in kv.items()))
            else:
                real_ops.append(dict(kv))
            sh_ops.append(('where', kv))
        elif sp[0] == 'lambda':
            a = attrs[sp[1] % len(attrs)]
            pool = value_pool(st_, cname, a)
            v = pool[sp[3] % len(pool)]
            cmpk = sp[2]
            if cmpk == '==':
                real_ops.append(lambda sel, a=a, v=v: getattr(sel, a) == v)
                sh_ops.append(('pred', lambda val, v=v: val == v, a))
            elif cmpk == '!=':
                real_ops.append(lambda sel, a=a, v=v: getattr(sel, a) != v)
                sh_ops.append(('pred', lambda val, v=v: val != v, a))
            else:
                real_ops.append(lambda sel, a=a: getattr(sel, a) is None)
                sh_ops.append(('pred', lambda val: val is None, a))
        elif sp[0] == 'order':
            sa = sortable_attrs(st_, cname)
            if not sa:
                continue
            names = []
            for k in sp[1]:
                n = sa[k % len(sa)][0]
                if n not in names:
                    names.append(n)
            real_ops.append(xtuml.reverse_order_by(*names) if sp[2] else xtuml.order_by(*names))
            sh_ops.append(('order', names, sp[2]))
        elif sp[0] == 'first2':
            # a predicate with state would be order dependent; use a pure one on identity instead
            continue
    return real_ops, sh_ops


def sh_apply(st_, recs, sh_ops):
    recs = list(recs)
    for op in sh_ops:
        if op[0] == 'where':
            recs = [r for r in recs if all(_eq(st_.sh.attr(r, a), v) for a, v in op[1].items())]
        elif op[0] == 'pred':
            recs = [r for r in recs if op[1](st_.sh.attr(r, op[2]))]
        elif op[0] == 'order':
            names, rev = op[1], op[2]
            keyf = lambda r: [st_.sh.attr(r, n) for n in names]
            if not rev:
                recs = sorted(recs, key=keyf)          # stable
            else:
                # descending, ties keep their original order
                out = []
                for r in recs:
                    k = keyf(r)
                    pos = len(out)
                    for i, o in enumerate(out):
                        if keyf(o) < k:
                            pos = i
                            break
                    out.insert(pos, r)
                recs = out
    return recs


def _eq(a, b):
    if a is None or b is None:
        return a is b
    return a == b


def hops_from(st_, cname):
    """All declared navigation ends from a class: (kind, rel, phrase)."""
    out = []
    for a in st_.schema.assocs:
        if a['src'].upper() == cname.upper():
            out.append((a['tgt'], a['rel'], a['src_phrase']))
        if a['tgt'].upper() == cname.upper():
            out.append((a['src'], a['rel'], a['tgt_phrase']))
    # class -> class across an association class
    for i, a in enumerate(st_.schema.assocs):
        if a.get('shape') != 'assoc' or a['tgt'].upper() != cname.upper():
            continue
        for j, b in enumerate(st_.schema.assocs):
            if j != i and b['rel'] == a['rel'] and b['src'] == a['src'] and b.get('shape') == 'assoc':
                # from a.tgt through link class to b.tgt: phrase of the end navigated to
                if a['tgt_phrase'] == b['src_phrase']:
                    # listed three times: the two-hop form is the rarest and the most intricate one
                    out.extend([(b['tgt'], a['rel'], a['tgt_phrase'])] * 3)
    return out


def run_queries(st_, case, res=None):
    def fail(bucket, detail, q):
        raise Violation(bucket, case, 'query %r: %s' % (q, detail))

    names = [c['name'] for c in st_.schema.classes]
    built = st_.__dict__.setdefault('built', {})
    for qi, q in enumerate(case['queries']):
        nontrivial = False
        classes = []
        if q['kind'] == 'select':
            cname = names[q['cls'] % len(names)]
            if qi not in built:
                built[qi] = build_ops(st_, cname, q['ops'])     # asked again later with the very same operators and values
            real_ops, sh_ops = built[qi]
            cands = st_.sh.live(cname)
            want = sh_apply(st_, cands, sh_ops)
            target = st_.m if q['via'] == 'model' else st_.m.find_metaclass(cname)
            pre = (cname,) if q['via'] == 'model' else ()
            try:
                if q['form'] == 'many':
                    got = target.select_many(*(pre + tuple(real_ops)))
                    if not isinstance(got, xtuml.QuerySet):
                        fail('select-many-not-queryset', type(got), q)
                    raw = got
                    got = [st_.idx(x) for x in got]
                    raw.clear()        # a result belongs to the caller: emptying it is no operation on the model
                    exp = [r.idx for r in want]
                elif q['form'] == 'one':
                    g = target.select_one(*(pre + tuple(real_ops)))
                    got = None if g is None else st_.idx(g)
                    exp = want[0].idx if want else None
                else:
                    g = st_.m.select_any(cname, *real_ops)
                    got = None if g is None else st_.idx(g)
                    exp = want[0].idx if want else None
                if want and q['form'] != 'many' and hasattr(st_, 'found'):
                    st_.found.append(want[0])
                    kv_all = {}
                    for o in sh_ops:
                        if o[0] == 'where':
                            kv_all.update(o[1])
                    st_.found_kv[want[0].idx] = kv_all
            except Violation:
                raise
            except Exception as e:
                fail('select-exception:' + exc_bucket(e), repr(e), q)
            if got != exp:
                kinds = '+'.join(sorted(set(o[0] for o in sh_ops))) or 'plain'
                fail('select-%s-wrong-result:%s' % (q['form'], kinds), 'got %r want %r' % (got, exp), q)
            nontrivial = len(sh_ops) >= 2 and bool(want) and len(want) < len(cands) or \
                (len(sh_ops) >= 2 and bool(want) and any(o[0] == 'order' for o in sh_ops) and len(cands) >= 3)
            classes.append('select-' + q['form'])
            for o in sh_ops:
                classes.append('op-' + o[0])
        elif q['kind'] == 'nav':
            cname = names[q['cls'] % len(names)]
            live = st_.sh.live(cname)
            if q['start'] == 'none' or not live:
                start_recs, handle = [], None
            elif q['start'] == 'inst':
                start_recs = [live[q['picks'][0] % len(live)]]
                handle = st_.real[start_recs[0].idx]
            else:
                start_recs = []
                for p in q['picks']:
                    r = live[p % len(live)]
                    if r not in start_recs:
                        start_recs.append(r)
                objs = [st_.real[r.idx] for r in start_recs]
                if q['start'] == 'set':
                    handle = xtuml.QuerySet(objs)
                elif q['start'] == 'list':
                    handle = list(objs)
                elif q['start'] == 'gen':
                    handle = (o for o in objs)
                else:
                    handle = st_.m.select_many(cname)
                    start_recs = list(live)
            cur = cname
            recs = list(start_recs)
            chain = (xtuml.navigate_many if q['form'] == 'many' else
                     (xtuml.navigate_one if q['form'] == 'one' else xtuml.navigate_any))(handle)
            nh = 0
            try:
                for h in q['hops']:
                    hs = hops_from(st_, cur)
                    if not hs:
                        break
                    kind, rel, phrase = hs[h % len(hs)]
                    relarg = 'R%d' % rel if q['relstr'] else rel
                    if q['syntax'] == 'nav':
                        chain = chain.nav(kind, relarg, phrase) if phrase else chain.nav(kind, relarg)
                    else:
                        chain = getattr(chain, kind)[relarg, phrase] if phrase else getattr(chain, kind)[relarg]
                    recs = st_.sh.nav(recs, kind, rel, phrase)
                    cur = kind
                    nh += 1
                real_ops, sh_ops = build_ops(st_, cur, q['ops'])
                before = list(recs)
                want = sh_apply(st_, recs, sh_ops)
                g = chain(*real_ops)
            except Violation:
                raise
            except Exception as e:
                fail('navigation-exception:' + exc_bucket(e), repr(e), q)
            if q['form'] == 'many':
                if not isinstance(g, xtuml.QuerySet):
                    fail('navigate-many-not-queryset', type(g), q)
                got = [st_.idx(x) for x in g]
                exp = [r.idx for r in want]
                while len(g):
                    g.pop()            # used up as a work list by the caller
            else:
                got = None if g is None else st_.idx(g)
                exp = want[0].idx if want else None
            if got != exp:
                fail('navigation-%s-wrong-result:hops%d' % (q['form'], min(nh, 2)), 'got %r want %r (start %r)' % (got, exp, start_recs), q)
            nontrivial = nh >= 2 and len(start_recs) >= 2 and bool(want)
            classes.append('nav-%s-from-%s' % (q['form'], q['start']))
            classes.append('nav-hops-%d' % nh)
        else:
            sups = []
            for a in st_.schema.assocs:
                if a.get('shape') == 'subsuper':
                    sups.append(a)
            if not sups:
                continue
            a = sups[q['pick'] % len(sups)]
            for srec in st_.sh.live(a['tgt']):
                subs = []
                for i, b in enumerate(st_.schema.assocs):
                    if b['rel'] == a['rel'] and b['tgt'] == a['tgt'] and b.get('shape') == 'subsuper':
                        subs += st_.sh.partners(i, srec, False)
                try:
                    g = xtuml.navigate_subtype(st_.real[srec.idx], a['rel'])
                except Exception as e:
                    fail('subtype-exception:' + exc_bucket(e), repr(e), q)
                if len(subs) == 1 and (g is None or st_.idx(g) != subs[0].idx):
                    fail('navigate-subtype-wrong', 'got %r want %r' % (g, subs[0]), q)
                if len(subs) == 0 and g is not None:
                    fail('navigate-subtype-wrong', 'got %r want None' % (g,), q)
                if len(subs) >= 1:
                    nontrivial = True
            classes.append('subtype')
        if res is not None:
            res.case({'state': case.get('source'), 'q': q, 'h': core_sha(case)}, nontrivial,
                     sample={'source': case['source'], 'schema': case['schema'], 'query': q} if nontrivial else None,
                     classes=classes + ['state-' + case['source']])


def systematic_two_hop(st_, case):
    """every class -> class navigation across an association class, from every live instance (the drawn queries
    reach this form only occasionally)"""
    back = dict((id(v), k) for k, v in st_.real.items())
    n = 0
    for c in st_.schema.classes:
        for kind, rel, phrase in hops_from(st_, c['name']):
            direct = st_.sh.resolve(c['name'], kind, rel, phrase)
            if direct:
                continue
            for r in st_.sh.live(c['name']):
                want = [p.idx for p in st_.sh.nav1(r, kind, rel, phrase)]
                try:
                    got = [back.get(id(x), -1) for x in xtuml.navigate_many(st_.real[r.idx]).nav(kind, rel, phrase)()]
                except Exception as e:
                    raise Violation('navigation-exception:' + exc_bucket(e), case, repr(e))
                if got != want:
                    raise Violation('navigation-many-wrong-result:across-association-class', case,
                                    '%r -> %s[R%d %r]: got %r want %r' % (r, kind, rel, phrase, got, want))
                n += 1
    return n


def check_links_unchanged(st_, case):
    """queries and navigations are reads: afterwards every association still navigates as the shadow says"""
    back = dict((id(v), k) for k, v in st_.real.items())
    for i, a in enumerate(st_.schema.assocs):
        for r in st_.sh.live(a['src']):
            want = [p.idx for p in st_.sh.partners(i, r, True)]
            got = [back.get(id(x), -1) for x in xtuml.navigate_many(st_.real[r.idx]).nav(a['tgt'], a['rel'], a['src_phrase'])()]
            if sorted(got) != sorted(want):
                raise Violation('queries-changed-the-model', case, 'after the queries R%d from %r reaches %r, before %r' % (a['rel'], r, got, want))
        for r in st_.sh.live(a['tgt']):
            want = [p.idx for p in st_.sh.partners(i, r, False)]
            got = [back.get(id(x), -1) for x in xtuml.navigate_many(st_.real[r.idx]).nav(a['src'], a['rel'], a['tgt_phrase'])()]
            if sorted(got) != sorted(want):
                raise Violation('queries-changed-the-model', case, 'after the queries R%d to %r is reached from %r, before %r' % (a['rel'], r, got, want))
    for c in st_.schema.classes:
        got = [back.get(id(x), -1) for x in st_.m.select_many(c['name'])]
        want = [r.idx for r in st_.sh.live(c['name'])]
        if got != want:
            raise Violation('queries-changed-the-model', case, 'after the queries %s holds %r, before %r' % (c['name'], got, want))


def core_sha(case):
    from .core import sha
    return sha([case.get('schema'), case.get('ops'), case.get('rows'), case.get('init')])


def selftest():
    # descending sort keeps ties in original order (what sorted(reverse=True) does)
    class R(object):
        def __init__(self, k, i): self.k, self.i = k, i
    data = [R(1, 0), R(2, 1), R(1, 2), R(2, 3)]
    assert [r.i for r in sorted(data, key=lambda r: r.k, reverse=True)] == [1, 3, 0, 2]


def run(ctx):
    res = Res()

    def body(case):
        try:
            try:
                st_ = State(case)
            except Unusable as u:
                res.discarded[str(u)] += 1
                return
            if case['source'] == 'late' and st_.relinked:
                res.classes['late-model-relinked'] += 1
            run_queries(st_, case, res)
            if systematic_two_hop(st_, case) and res is not None:
                res.classes['two-hop-probe'] += 1
            check_links_unchanged(st_, case)
            if case.get('tail') and apply_tail(st_, case):
                second_pass(st_, case)
                res.classes['asked-again-after-changes'] += 1
            if case['source'] == 'history' and subtype_migration(st_, case):
                res.classes['subtype-migration'] += 1
                check_links_unchanged(st_, case)
        except Violation:
            raise
        except Exception as e:
            raise Violation('harness-exception:' + exc_bucket(e), case, repr(e))

    hyp_run(ctx, res, cases(), body, ctx.pick(1500, 5000), label='queries')
    return res


def subtype_migration(st_, case):
    """every supertype instance with one subtype instance is moved to a new instance of each other subtype class in turn
    (unrelate, create, relate - through the runner, so the shadow follows); after every move navigate_subtype of every
    supertype instance of the group must return the one related subtype instance. -> number of moves"""
    r = st_.runner
    groups = {}
    for i, a in enumerate(st_.schema.assocs):
        if a.get('shape') == 'subsuper':
            groups.setdefault((a['rel'], a['tgt']), []).append(i)
    moves = 0
    for (rel, sup), idxs in sorted(groups.items()):
        if len(idxs) < 2:
            continue
        for srec in list(r.sh.live(sup)):
            for turn in range(len(idxs) + 1):
                cur = [(i, p) for i in idxs for p in r.sh.partners(i, srec, False)]
                if len(cur) != 1 or moves >= 12:
                    break
                i, x = cur[0]
                j = idxs[(idxs.index(i) + 1) % len(idxs)]
                try:
                    r.apply(['unrelate', x.idx, srec.idx, rel, None, False])
                    y = r.new(st_.schema.assocs[j]['src'])
                    r.apply(['relate', y, srec.idx, rel, None, bool(turn % 2)])
                except Violation as v:
                    raise Violation('subtype-migration:' + v.bucket, case, v.detail)
                moves += 1
                for other in r.sh.live(sup):
                    subs = [p.idx for k in idxs for p in r.sh.partners(k, other, False)]
                    if len(subs) > 1:
                        continue
                    try:
                        g = xtuml.navigate_subtype(r.real[other.idx], rel)
                    except Exception as e:
                        raise Violation('subtype-exception:' + exc_bucket(e), case, repr(e))
                    got = None if g is None else r.idx_of(g)
                    if got != (subs[0] if subs else None):
                        raise Violation('navigate-subtype-wrong:after-migration', case,
                                        'R%d from #%d after moving #%d from %s to %s: got %r want %r'
                                        % (rel, other.idx, srec.idx, st_.schema.assocs[i]['src'], st_.schema.assocs[j]['src'], got, subs[0] if subs else None))
    if moves:
        st_.real = dict((rec.idx, r.real[rec.idx]) for rec in r.sh.recs)
    return moves


def second_pass(st_, case):
    try:
        run_queries(st_, case)
    except Violation as v:
        raise Violation('asked-again:' + v.bucket, case, 'the same query after the model had changed: ' + v.detail)
    check_links_unchanged(st_, case)


def replay(case):
    try:
        st_ = State(case)
    except Unusable:
        return
    run_queries(st_, case)
    systematic_two_hop(st_, case)
    check_links_unchanged(st_, case)
    if case.get('tail') and apply_tail(st_, case):
        second_pass(st_, case)
    if case['source'] == 'history' and subtype_migration(st_, case):
        check_links_unchanged(st_, case)
