#!/bin/bash
# tools/runmutants.sh [pattern]  -- runs every mutants/<Cxx>-*.diff against check Cxx (quick tier), 6 in parallel.
cd "$(dirname "$0")/.."
pat="${1:-}"
ls mutants/*.diff | grep "$pat" | xargs -P 6 -I{} bash -c 'f={}; c=$(basename $f | cut -d- -f1); out=$(MUT_LINES=3 tools/mutant.sh $f $c 2>&1 | head -4 | tr "\n" " " | cut -c1-260); echo "$(basename $f .diff): $out"'
