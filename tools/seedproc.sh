#!/bin/bash
# tools/seedproc.sh <Cxx> [seed-name]  -- verify a sub-agent's seeded change in a fresh scratch worktree and run the check on it
set -u
P=$1; NAME=${2:-$1-a}
SRC=${3:-/tmp/wt/$P/_seed}
DST=/verif/seeded/$NAME
[ -f $SRC/patch.diff ] || { echo "no patch in $SRC"; exit 2; }
mkdir -p $DST && cp $SRC/patch.diff $SRC/demo.py $DST/ && cp $SRC/NOTES.md $DST/NOTES.md 2>/dev/null
W=/tmp/wt/verify_$NAME
git -C /repo worktree remove --force $W 2>/dev/null; rm -rf $W
git -C /repo worktree add -q --detach $W HEAD || exit 2
mkdir -p $W/_seed && cp $DST/demo.py $W/_seed/
/verif/tools/run_with_tree.sh $W $W/_seed/demo.py > $DST/.demo_without.log 2>&1; d0=$?
git -C $W apply $DST/patch.diff || { echo "patch does not apply"; exit 2; }
/verif/tools/run_with_tree.sh $W $W/_seed/demo.py > $DST/.demo_with.log 2>&1; d1=$?
t=$(/verif/tools/run_with_tree.sh $W tests 2>&1 | tail -1)
git -C /repo worktree remove --force $W
echo "demo without change: exit $d0 ; demo with change: exit $d1 ; tests with change: $t"
out=$(MUT_LINES=6 MUT_TIER=${TIER:-quick} /verif/tools/mutant.sh $DST/patch.diff $P 2>&1)
echo "$out" | head -8
python3 - "$DST" "$P" "$d0" "$d1" "$t" "$out" <<'PY'
import json, sys, os
dst, prop, d0, d1, t, out = sys.argv[1:7]
notes = open(os.path.join(dst, 'NOTES.md')).read() if os.path.exists(os.path.join(dst, 'NOTES.md')) else ''
meta = {'property': prop, 'source': 'independent sub-agent given only the property text and a scratch worktree',
        'needs_to_manifest': notes.strip()[:1500],
        'verified': {'demo_exit_without_change': int(d0), 'demo_exit_with_change': int(d1), 'test_suite_with_change': t.strip(),
                     'how': '/verif/tools/run_with_tree.sh on a fresh git worktree of /repo HEAD (packages imported from the worktree, PLY tables regenerated)'},
        'check_result': {'command': 'tools/mutant.sh seeded/%s/patch.diff %s (quick tier)' % (os.path.basename(dst), prop),
                         'detected': 'exit=1' in out, 'first_lines': out.strip().splitlines()[:4]}}
json.dump(meta, open(os.path.join(dst, 'meta.json'), 'w'), indent=1)
PY
rm -f $DST/.demo_without.log $DST/.demo_with.log
