#!/bin/bash
# Offline setup: make sure hypothesis and ply are importable in /venv.
set -u
cd "$(dirname "$0")/.." || exit 2
export PIP_NO_INDEX=1
PY=/venv/bin/python
if ! "$PY" -c 'import hypothesis' 2>/dev/null; then
    /venv/bin/pip install --no-index --find-links /opt/veriftools/wheels hypothesis || exit 2
fi
"$PY" -c 'import hypothesis, ply; print("hypothesis", hypothesis.__version__, "ply", ply.__version__)' || exit 2
chmod +x check
mkdir -p evidence replays .build
exit 0
