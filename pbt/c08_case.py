"""C08 - OAL keywords are case-insensitive in parsing, execution and prebuild."""
from hypothesis import strategies as st

import xtuml
import bridgepoint.oal as oal
from bridgepoint import interpret
from . import oalsyn, oalprog, c04_interpret
from .oalgen import Printer, render, FIELDS
from .oalref import Evaluator, Discard
from .core import Violation, hyp_run, Res, exc_bucket, TimeLimit

PROPERTY = 'C08'
RULE = ('metamorphic: a body P printed with all keywords in lower case and the same body P\' printed with a drawn '
        'per-occurrence case map (lower / UPPER / Capitalised / mixed; thorough tier additionally flips ONE keyword '
        'occurrence at a time) must (1) parse to the same tree up to the spelling of keyword-valued fields (bodies over '
        'every statement production, from pbt/oalsyn.py), (2) when interpreted (typed programs of C04 over the same '
        'initial population) return the same value and leave the same final population as P and as the reference '
        'evaluator, (3) prebuild to the same ACT_*/V_*/E_* instances apart from recorded source text and ids (the prebuild '
        'fixtures of C05, state and transition actions with generate / create event statements included), (5) enumerated: every word of the keyword table glued to what follows it (`return::f()`, `not(x)`, `end::f()` ...; 55 words x 28 templates x 4 spellings) is accepted in every spelling or in none and gives trees of one shape. non-trivial = P\' differs from P in a keyword that carries semantics (many/any/one, and/or/not, '
        'true/false, empty/not_empty/cardinality); distinct = by (program, case map).')
ASSUMPTIONS = [
    'identifiers are never re-cased (only words the printer emits as keywords)',
    'keyword-valued node fields (operator, cardinality, boolean literal, self) may keep the spelling of the source',
]

SEMANTIC = set(['many', 'any', 'one', 'and', 'or', 'not', 'true', 'false', 'empty', 'not_empty', 'cardinality'])


def print_cased(ast, case_list, recorder=None, choices=None):
    base = oalsyn.caser(case_list) if case_list else (lambda w: w)

    def case(word):
        out = base(word)
        if recorder is not None:
            recorder.append((word, out))
        return out
    # optional words (assign, loop, then, instances of) and redundant parentheses are drawn as well, identically for
    # the lower-case and the re-cased text
    choose = oalsyn.chooser(choices) if choices else (lambda key, options: options[0])
    p = Printer(choose=choose, case=case)
    p.block(ast['block'])
    return render(p.toks, [' '], [' '])[0]


def print_one_flipped(ast, k):
    """upper-case only the k-th keyword occurrence"""
    state = {'i': 0, 'word': None}

    def case(word):
        i = state['i']
        state['i'] += 1
        if i == k:
            state['word'] = word
            return word.upper()
        return word
    p = Printer(choose=lambda key, options: options[0], case=case)
    p.block(ast['block'])
    return render(p.toks, [' '], [' '])[0], state['i'], state['word']


INVOCATIONS = ('ImplicitInvocationNode', 'ClassInvocationNode', 'BridgeInvocationNode', 'PortInvocationNode')


def same_tree(a, b, path='root', merge_invocations=False):
    """parsed vs parsed, keyword-valued fields folded"""
    if a is None or b is None:
        return None if a is None and b is None else '%s: %r vs %r' % (path, a, b)
    ta, tb = type(a).__name__, type(b).__name__
    if merge_invocations and ta in INVOCATIONS and tb in INVOCATIONS:
        tb = ta
    if ta != tb:
        return '%s: %s vs %s' % (path, ta, tb)
    for name, kind in FIELDS[type(a).__name__]:
        x, y = getattr(a, name), getattr(b, name)
        if kind in 'sk':
            if isinstance(x, str) and isinstance(y, str) and (kind == 'k' or x.lower() == 'self'):
                x, y = x.lower(), y.lower()
            if x != y:
                return '%s.%s: %r vs %r' % (path, name, x, y)
        elif kind == 'n':
            d = same_tree(x, y, '%s.%s' % (path, name), merge_invocations)
            if d:
                return d
        else:
            x, y = list(x), list(y)
            if len(x) != len(y):
                return '%s.%s: %d vs %d children' % (path, name, len(x), len(y))
            for i, (p, q) in enumerate(zip(x, y)):
                d = same_tree(p, q, '%s.%s[%d]' % (path, name, i), merge_invocations)
                if d:
                    return d
    return None


def semantic_diff(rec):
    return sorted(set(w for w, o in rec if o != w and w in SEMANTIC))


# -- (1) parsing ------------------------------------------------------------------------------------------------

def parse_case(case, res=None):
    ast = oalsyn.g_body(oalsyn.Tape(case['tape']))
    lower = print_cased(ast, None, None, case.get('choices'))
    rec = []
    cased = print_cased(ast, case['case'], rec, case.get('choices'))
    info = dict(case, lower=lower, cased=cased)
    try:
        t0 = oal.parse(lower)
    except Exception as e:
        raise Violation('lower-case-body-rejected:' + exc_bucket(e), info, repr(e))
    try:
        t1 = oal.parse(cased)
    except oal.ParseException as e:
        kws = sorted(set(w for w, o in rec if o != w))
        raise Violation('recased-body-rejected', info, '%r\nrecased keywords: %r\n%s' % (e, kws, cased))
    except Exception as e:
        raise Violation('parse-exception:' + exc_bucket(e), info, repr(e))
    d = same_tree(t0, t1)
    if d:
        raise Violation('recased-tree-differs:' + d.split(':')[0].split('.')[-1].split('[')[0], info, '%s\n%s' % (d, cased))
    if res is not None:
        sd = semantic_diff(rec)
        res.case(cased, bool(sd), sample=cased if sd and len(cased) < 500 else None, classes=['parse'] + ['kw:' + w for w in sd])


# -- (2) interpretation ----------------------------------------------------------------------------------------------

def run_text(pop, text, info):
    domain, w, _ = c04_interpret.build(pop)
    try:
        with TimeLimit(20):
            got = interpret.run_function(domain, 'check', text, {})
    except TimeLimit.Expired:
        raise Violation('interpreter-does-not-terminate', info, text)
    except Exception as e:
        raise Violation('interpreter-exception:' + exc_bucket(e), info, '%r\n%s' % (e, text))
    return domain, got


def interpret_case(case, res=None, flips=False):
    ast, features = oalprog.program(case['tape'], case['max_stmts'], case['max_depth'])
    _d, w, _r = c04_interpret.build(case['pop'])
    try:
        want = Evaluator(w).run_body(ast)
    except Discard as d:
        if res is not None:
            res.discarded[d.reason] += 1
        return
    variants = []
    rec = []
    variants.append((print_cased(ast, case['case'], rec, case.get('choices')), semantic_diff(rec)))
    if flips:
        _t, n, _w = print_one_flipped(ast, -1)
        for k in range(n):
            text, _n, word = print_one_flipped(ast, k)
            variants.append((text, [word] if word in SEMANTIC else []))
    for text, sd in variants:
        info = dict(case, text=text)
        domain, got = run_text(case['pop'], text, info)
        tag = 'recased-' + ('+'.join(sd) if sd else 'syntax-keywords')
        try:
            real, back = c04_interpret.compare_population(domain, w.sh, info, tag)
        except Violation as v:
            raise Violation(v.bucket.split(':')[0], info, v.detail + '\n' + text)
        if not c04_interpret.value_eq(got, want, back):
            raise Violation(tag + '-return-value', info, 'returned %r, reference %r\n%s' % (got, want, text))
        if res is not None:
            res.case(text, bool(sd), sample=text if sd and len(text) < 600 else None,
                     classes=['interpret'] + ['kw:' + w_ for w_ in sd])


# -- (4) callables ------------------------------------------------------------------------------------------------------

def _norm(v):
    if isinstance(v, (list, tuple, set, frozenset)) or type(v).__name__ in ('QuerySet', 'OrderedSet'):
        return ['set'] + [_norm(x) for x in v]
    if hasattr(v, '__metaclass__') or type(v).__module__.startswith('xtuml') and hasattr(v, '__dict__') and not isinstance(v, type):
        try:
            return ['inst', xtuml.get_metaclass(v).kind, getattr(v, 'Id', None)]
        except Exception:
            return ['obj', type(v).__name__]
    return v if isinstance(v, (int, float, str, bool, type(None))) else repr(v)


def _snapshot(domain):
    out = {}
    for c in oalprog.SCHEMA['classes']:
        rows = []
        for i in domain.select_many(c['name']):
            rows.append([_norm(getattr(i, a)) for a, _t in c['attrs']])
        out[c['name']] = rows
    return out


class _Slow(Exception):
    pass


def callables_run(case, kwcase, budget=4):
    from . import c15_callables
    c = dict(case, kwcase=kwcase)
    callables, features, domain, _text = c15_callables.build(c)
    c15_callables.populate(domain, case['pop'])
    trace = []
    k = 0
    for cb in callables:
        args = {}
        for pn, pt in cb.params:
            args[pn] = c15_callables.arg_value(pt, case['args'][k % len(case['args'])])
            k += 1
        recv = None
        if cb.kind in ('instop', 'derived'):
            insts = list(domain.select_many(cb.cls))
            if not insts:
                continue
            recv = insts[case['args'][k % len(case['args'])] % len(insts)]
            k += 1
        try:
            with TimeLimit(budget):
                if cb.kind == 'function':
                    got = domain.find_symbol(cb.name)(**args)
                elif cb.kind == 'bridge':
                    got = getattr(domain.find_symbol(cb.cls), cb.name)(**args)
                elif cb.kind == 'classop':
                    got = getattr(domain.find_class(cb.cls), cb.name)(**args)
                elif cb.kind == 'instop':
                    got = getattr(recv, cb.name)(**args)
                else:
                    got = getattr(recv, cb.name)
            out = ['returned', _norm(got)]
        except TimeLimit.Expired:
            raise _Slow()
        except RecursionError:
            out = ['raised', 'RecursionError']
        except Exception as e:
            out = ['raised', type(e).__name__]
        trace.append({'callable': cb.kind + ':' + cb.name, 'outcome': out, 'population': _snapshot(domain), 'text': cb.text})
    return trace, features


def callables_case(case, res=None):
    try:
        t0, features = callables_run(case, [0])
    except _Slow:
        # generated call graphs are not bounded (C15 bounds them by the fuel of its reference evaluator): not a case
        if res is not None:
            res.discarded['lower-case run of the call graph exceeds 4 s'] += 1
        return
    if any(o['outcome'] == ['raised', 'RecursionError'] for o in t0):
        # where the interpreter's recursion is cut off depends on how deep the Python stack already is, and what was done up
        # to that point stays done: such a run is not a function of the program alone (seen in the thorough tier as a
        # difference that moved from callable to callable between replays)
        if res is not None:
            res.discarded['call graph runs into the recursion limit of the Python stack'] += 1
        return
    for variant in (case['kwcase'], [1]):
        _compare_variant(case, t0, variant)
    if res is not None:
        up = any(case['kwcase'])
        res.case(['callables', case['tape'], case['kwcase'], case['args']], bool('call-in-expression' in features and len(t0) >= 3),
                 classes=['callables'] + (['callables-recased'] if up else []))


def _compare_variant(case, t0, variant):
    try:
        t1, _f = callables_run(case, variant, budget=40)
    except _Slow:
        raise Violation('recased-callable-does-not-terminate', dict(case, variant=variant),
                        'lower-case run finished within 4 s, re-cased run not within 40 s per call')
    if any(o['outcome'] == ['raised', 'RecursionError'] for o in t1):
        return
    for a, b in zip(t0, t1):
        info = dict(case, lower=a['text'], cased=b['text'], variant=variant)
        if a['outcome'] != b['outcome']:
            raise Violation('recased-callable-outcome:' + a['callable'].split(':')[0], info,
                            '%s: lower-case %r, re-cased %r\n%s' % (a['callable'], a['outcome'], b['outcome'], b['text']))
        if a['population'] != b['population']:
            diff = [k for k in a['population'] if a['population'][k] != b['population'][k]]
            raise Violation('recased-callable-population:' + a['callable'].split(':')[0], info,
                            '%s: population of %r differs after the call: lower-case %r, re-cased %r\n%s' % (
                                a['callable'], diff, [a['population'][k] for k in diff][:2], [b['population'][k] for k in diff][:2], b['text']))


# -- (5) keyword-spelled words glued to what follows ---------------------------------------------------------------
# Whatever a keyword-spelled word turns out to be in its context (keyword, namespace before '::', part of a longer
# token), its letter case must not change whether the text is accepted nor the shape of the tree.  Every word of the
# keyword table (and 'end') in every template, four spellings each.
GLUE_TEMPLATES = ['%s::f();', 'x = %s::f();', 'return %s::f();', 'if (%s::f()) x = 1; end if;', 'x = 1 %s::f();', 'x = 1; %s::f();',
                  'x = not %s::f();', 'x = y %s::f();', 'while (x) y = 1; end %s::f();', '%s(1);', 'x = %s(y);', '%s;', 'x = %s;',
                  '%s.a = 1;', 'x = %s.a;', 'x = %s[1];', 'x = y.%s;', 'x = %s::a;', 'x = 1 %s- 1;', 'x = (%s);', 'x = %s"a";',
                  'select any x from instances of %s;', "x = y->A[R1.'p']%s;", 'x = 1 %s 2;', 'if (x) y = 1; %s y = 2; end if;',
                  'x = %s y;', 'x = %s(y) + 1;', 'for each x in %s y = 1; end for;']


def _spellings(w):
    return [w, w.upper(), w.capitalize(), ''.join(c.upper() if i % 2 else c for i, c in enumerate(w))]


def _shape(n):
    if isinstance(n, oal.Node):
        return (type(n).__name__,) + tuple((k, _shape(v)) for k, v in sorted(vars(n).items()) if k not in ('position', 'character_stream'))
    if isinstance(n, (list, tuple)):
        return tuple(_shape(x) for x in n)
    if isinstance(n, str):
        return n.lower()            # the texts differ in the letters of one word only
    return n


def glue_cases():
    words = sorted(set(k.lower() for k in oal.OALParser.keywords)) + ['end']
    for w in words:
        for t in GLUE_TEMPLATES:
            yield {'glue': [t, w]}


def glue_case(case, res=None):
    t, w = case['glue']
    outs = []
    for sp in _spellings(w):
        text = t % sp
        try:
            outs.append(('accepted', _shape(oal.parse(text)), text))
        except oal.ParseException:
            outs.append(('rejected', None, text))
        except Exception as e:
            raise Violation('glued-keyword-exception:' + exc_bucket(e), case, '%r for %r' % (e, text))
    for o in outs[1:]:
        if o[0] != outs[0][0]:
            raise Violation('glued-keyword:accepted-in-one-spelling-only', case, '%r is %s, %r is %s' % (outs[0][2], outs[0][0], o[2], o[0]))
        if o[1] != outs[0][1]:
            raise Violation('glued-keyword:tree-differs', case, '%r and %r parse to different trees' % (outs[0][2], o[2]))
    if res is not None:
        res.case(case['glue'], outs[0][0] == 'accepted', classes=('glued', 'glued-' + outs[0][0]))


def selftest():
    a = oal.parse('select many xs from instances of A; x = not true or false;')
    b = oal.parse('SELECT MANY xs FROM INSTANCES OF A; x = NOT TRUE OR FALSE;')
    assert same_tree(a, b) is None
    c = oal.parse('select any xs from instances of A; x = not true or false;')
    assert same_tree(a, c) is not None


def run(ctx):
    res = Res()

    def wrap(fn, **kw):
        def body(case):
            try:
                fn(case, res, **kw)
            except Violation:
                raise
            except Exception as e:
                raise Violation('harness-exception:' + exc_bucket(e), case, repr(e))
        return body

    cases_ = st.lists(st.integers(0, 3), min_size=1, max_size=25)
    choices_ = st.lists(st.integers(0, 5), min_size=1, max_size=20)
    hyp_run(ctx, res, st.fixed_dictionaries({'tape': oalsyn.tapes(400, 40), 'case': cases_, 'choices': choices_}), wrap(parse_case),
            ctx.pick(2000, 12000), label='parse')
    prog = st.fixed_dictionaries({'tape': oalsyn.tapes(600, 60), 'pop': c04_interpret.populations(), 'case': cases_, 'choices': choices_,
                                  'max_stmts': st.just(ctx.pick(12, 30)), 'max_depth': st.just(ctx.pick(3, 4))})
    hyp_run(ctx, res, prog, wrap(interpret_case), ctx.pick(450, 2500), label='interpret')
    if not ctx.quick:
        hyp_run(ctx, res, prog, wrap(interpret_case, flips=True), 150, label='interpret_flips')
    if ctx.shard == 0:
        from .core import loop_run
        loop_run(ctx, res, glue_cases(), lambda c: glue_case(c, res))
    from . import c08_prebuild
    c08_prebuild.run_part(ctx, res)
    # (4) callables of a component (functions, bridges, operations, derived attributes calling each other): the same
    # component with lower-case and with re-cased keywords, same invocations, results and populations compared after
    # every call (differential - also where the language leaves the number of operand evaluations open)
    from . import c15_callables
    hyp_run(ctx, res, c15_callables.cases(kwcase=st.lists(st.integers(0, 3), min_size=1, max_size=7)), wrap(callables_case),
            ctx.pick(40, 400), label='callables')
    return res


def replay(case):
    if 'glue' in case:
        glue_case(case)
    elif 'prebuild' in case:
        from . import c08_prebuild
        c08_prebuild.replay(case)
    elif 'args' in case and 'order' in case:
        callables_case(dict(case))
    elif 'pop' in case:
        interpret_case(case, flips=False)
    else:
        parse_case(case)
