#!/usr/bin/env python3
"""Regenerates MANIFEST.json from the table below (run from /verif)."""
import json
import os

HERE = os.path.dirname(os.path.dirname(os.path.abspath(__file__)))

# id -> (technique, level text, level note, design ref)
CHECKS = {
    'C17': ('exhaustive operation-sequence enumeration + Hypothesis sequences vs list/set model',
            'Every call sequence up to the stated length over a 42-call alphabet on a 3-element universe is '
            'executed on OrderedSet and QuerySet and compared with a list/set model (complete inside that '
            'bound), plus Hypothesis-generated sequences up to length 60 over 8 elements. Bounded exploration; '
            'a defect needing a longer sequence over more elements than sampled is missed.',
            'Trusted: the harness model (plain list + set); iteration order demanded only among elements '
            'that arrived by add/|=.', 'DESIGN.md 3 C17'),
}

NOT_APPLICABLE = {
}


def main():
    props = [json.loads(l)['id'] for l in open(os.path.join(HERE, 'properties.jsonl'))]
    checks = []
    for pid in props:
        if pid not in CHECKS:
            continue
        tech, text, note, ref = CHECKS[pid]
        checks.append({
            'property_id': pid,
            'quick_cmd': './check %s --tier quick' % pid,
            'thorough_cmd': './check %s --tier thorough' % pid,
            'evidence_file': '/verif/evidence/%s.json' % pid,
            'replay_cmd_template': './check %s --replay {path}' % pid,
            'engine': 'pbt',
            'level_claimed': {'category': 'exploration', 'text': text, 'design_ref': ref},
            'level_note': note,
            'technique': tech,
        })
    na = []
    for pid in props:
        if pid in CHECKS:
            continue
        na.append({'property_id': pid,
                   'reason': NOT_APPLICABLE.get(pid, 'check not built yet (in progress); the technique applies, '
                                                'see DESIGN.md section 3')})
    manifest = {
        'version': 1,
        'setup_cmd': 'bash tools/setup.sh',
        'hooks': {
            'guard': 'PYXTUML_VERIF',
            'enable': 'no hooks are needed: every observation point is public API; checks import a fresh '
                      'copy of /repo/xtuml and /repo/bridgepoint and regenerate the PLY tables (pbt/build.py)',
            'baseline_off_cmd': 'cd /repo && /venv/bin/python -m pytest -q -p no:cacheprovider tests',
            'source_commits': [],
            'add_only': True,
        },
        'engines': [{
            'name': 'pbt', 'path': '/verif/pbt',
            'serves_properties': [c['property_id'] for c in checks],
            'kind_free_text': 'Hypothesis 6.168 property-based tests, stateful histories and exhaustive '
                              'small-scope enumeration against harness-side reference models',
        }],
        'checks': checks,
        'not_applicable': na,
        'notes': 'VERIF_SEED selects the Hypothesis seed (default 1); --tier or VERIF_TIER selects the depth. '
                 'exit 2 = harness error. Known findings: /verif/known_findings.json.',
    }
    with open(os.path.join(HERE, 'MANIFEST.json'), 'w') as f:
        json.dump(manifest, f, indent=1)
        f.write('\n')


if __name__ == '__main__':
    main()
