"""Syntactic OAL generators (every production of bridgepoint/oal.py) and layouts."""
import itertools

from hypothesis import strategies as st

from .oalgen import N, BINOPS, UNOPS, body, block

VARS = ['x', 'y', 'var_1', 'inst', 'Z9', '_u', 'cnt']
KW_VARS = ['across', 'stop', 'event', 'many', 'by', 'instances', 'class', 'using']     # kw_as_identifier_1
FIELDS_ = ['attr', 'Id', 'name_2', 'not', 'empty', 'if', 'true', 'param', 'self', 'or', 'of', 'to', 'select']
KEYLETTERS = ['A', 'B_C', 'KL9', 'Dog']
RELS = ['R1', 'R22', 'R103']
NAMESPACES = ['LOG', 'A', 'ns_1', '3d', 'Dog']
ACTIONS = ['f', 'LogInfo', 'op_1', 'return', 'while', 'any', 'create']
PARAMS = ['a', 'message', 'p_2', 'value', 'and', 'from']
PHRASES = ["'one'", "'is owned by'", "'x'", "'precedes'", "'goes on\nthe next line'"]
INTS = ['0', '1', '42', '007', '123456789012345678901234567890']
REALS = ['3.14', '.5', '1.', '1e5', '2E-3', '3.14f', '1.e+2L', '0.0']
STRINGS = ['"abc"', '""', '"a b"', '"/* no comment */"', '"// none"', '"it\'s"', '"1 + 2; end if"', '"åäö"']
BOOLS = ['true', 'false']


class Tape(object):
    """Deterministic choice source over a drawn list of integers; an exhausted tape answers 0, which every
    generator below treats as its simplest alternative, so generation always terminates and shrinks well."""

    def __init__(self, ints):
        self.ints = ints
        self.k = 0

    def pick(self, n):
        if self.k >= len(self.ints) or n <= 1:
            self.k += 1
            return 0
        v = self.ints[self.k] % n
        self.k += 1
        return v

    def choice(self, seq):
        return seq[self.pick(len(seq))]

    def flag(self):
        return self.pick(2) == 1


def tapes(max_size=300, min_size=0):
    return st.lists(st.integers(0, 255), min_size=min_size, max_size=max_size)


def g_name(t, pool, kw=None):
    if kw and t.pick(4) == 3:
        return t.choice(kw)
    return t.choice(pool)


def g_structure(t):
    k = t.pick(3)
    if k == 0:
        return N('VariableAccessNode', variable_name=g_name(t, VARS))
    return N('SelfAccessNode') if k == 1 else N('SelectedAccessNode')


def g_param_access(t):
    return N('ParamAccessNode', variable_name=g_name(t, VARS, KW_VARS), _kw=t.choice(['param', 'rcvd_evt']))


def g_field_access(t, depth):
    k = t.pick(4 if depth > 0 else 2)
    if k == 0:
        h = g_structure(t)
    elif k == 1:
        h = g_param_access(t)
    elif k == 2:
        h = g_field_access(t, depth - 1)
    else:
        h = g_index_access(t, depth - 1)
    return N('FieldAccessNode', handle=h, name=t.choice(FIELDS_))


def g_index_access(t, depth):
    k = t.pick(4 if depth > 0 else 2)
    if k == 0:
        h = N('VariableAccessNode', variable_name=g_name(t, VARS, KW_VARS))
    elif k == 1:
        h = g_param_access(t)
    elif k == 2:
        h = g_field_access(t, depth - 1)
    else:
        h = g_index_access(t, depth - 1)
    return N('IndexAccessNode', handle=h, expression=g_expr(t, max(depth - 1, 0)))


def g_variable_access(t, depth=1):
    k = t.pick(5)
    if k <= 1:
        return N('VariableAccessNode', variable_name=g_name(t, VARS, KW_VARS))
    if k == 2:
        return g_field_access(t, depth)
    if k == 3:
        return g_index_access(t, depth)
    return g_param_access(t)


def g_parameter_list(t, depth):
    ps = [N('ParameterNode', name=t.choice(PARAMS), expression=g_expr(t, depth)) for _ in range(t.pick(4))]
    return N('ParameterListNode', children=ps)


def g_invocation(t, depth, kinds=('implicit', 'function', 'instance')):
    k = t.choice(kinds)
    if k == 'implicit':
        return N('ImplicitInvocationNode', namespace=t.choice(NAMESPACES), action_name=t.choice(ACTIONS),
                 parameter_list=g_parameter_list(t, max(depth - 1, 0)))
    if k == 'function':
        return N('FunctionInvocationNode', action_name=t.choice(ACTIONS), parameter_list=g_parameter_list(t, max(depth - 1, 0)))
    return N('InstanceInvocationNode', handle=g_structure(t), action_name=t.choice(ACTIONS),
             parameter_list=g_parameter_list(t, max(depth - 1, 0)))


def g_constant(t):
    k = t.pick(5)
    if k == 0:
        return N('IntegerNode', value=t.choice(INTS))
    if k == 1:
        return N('RealNode', value=t.choice(REALS))
    if k == 2:
        return N('StringNode', value=t.choice(STRINGS))
    if k == 3:
        return N('BooleanNode', value=t.choice(BOOLS))
    return N('EnumOrNamedConstantNode', namespace=t.choice(NAMESPACES), name=t.choice(FIELDS_ + ['Red', 'MAX']))


def g_atom(t, depth):
    k = t.pick(6)
    if k <= 1:
        return g_constant(t)
    if k == 2:
        return g_variable_access(t, depth)
    if k == 3:
        return N('SelfAccessNode')
    if k == 4:
        return N('SelectedAccessNode')
    return g_invocation(t, depth)


def g_expr(t, depth=3):
    if depth <= 0:
        return g_atom(t, 0)
    k = t.pick(8)
    if k <= 1:
        return g_atom(t, 1)
    if k == 2:
        return N('UnaryOperationNode', operator=t.choice(UNOPS), operand=g_expr(t, depth - 1))
    return N('BinaryOperationNode', left=g_expr(t, depth - 1), operator=t.choice(BINOPS), right=g_expr(t, depth - 1))


def g_event_spec(t, depth):
    items = [N('EventDataItemNode', name=t.choice(PARAMS), expression=g_expr(t, depth)) for _ in range(t.pick(3))]
    meaning = t.choice([None] + PHRASES)
    es = N('EventSpecNode', identifier=t.choice(['A1', 'B_C3', 'E12', 'evt']), meaning=meaning,
           event_data=N('EventDataListNode', children=items))
    if meaning is not None and ' ' not in meaning and t.flag():
        es['_bare_meaning'] = True
    if t.pick(4) == 3:
        es['_poly'] = True
    if not items and t.flag():
        es['_empty_parens'] = True
    return es


def g_phrase(t, node):
    ph = t.choice([None] + PHRASES)
    node['phrase'] = ph or ''
    if ph and ' ' not in ph and t.flag():
        node['_bare_phrase'] = True
    return node


def g_inst(t):
    if t.pick(5) == 4:
        return 'self'
    return g_name(t, VARS, KW_VARS)


def g_simple_statement(t, depth):
    k = t.pick(26)
    if k in (0, 1, 2):
        return N('AssignmentNode', variable_access=g_variable_access(t, 1), expression=g_expr(t, depth))
    if k == 3:
        return N('BreakNode')
    if k == 4:
        return N('ContinueNode')
    if k == 5:
        return N('ControlNode')
    if k == 6:
        return N('ReturnNode', expression=g_expr(t, depth) if t.flag() else None)
    if k == 7:
        return N('InvocationStatementNode', invocation=g_invocation(t, depth))
    if k == 8:
        inv = g_invocation(t, depth, kinds=('implicit',))
        inv['t'] = 'BridgeInvocationNode'
        if t.flag():
            return N('AssignmentNode', variable_access=g_variable_access(t, 1), expression=inv, _lead='bridge')
        return N('InvocationStatementNode', invocation=inv, _lead='bridge')
    if k == 9:
        if t.flag():
            inv = g_invocation(t, depth, kinds=('instance',))
        else:
            inv = g_invocation(t, depth, kinds=('implicit',))
            inv['t'] = 'ClassInvocationNode'
        if t.flag():
            return N('AssignmentNode', variable_access=g_variable_access(t, 1), expression=inv, _lead='transform')
        return N('InvocationStatementNode', invocation=inv, _lead='transform')
    if k == 10:
        inv = g_invocation(t, depth, kinds=('implicit',))
        form = t.pick(3)
        if form == 2:
            return N('GeneratePortEventNode', port_name=inv['namespace'], action_name=inv['action_name'],
                     parameter_list=inv['parameter_list'], expression=g_expr(t, depth))
        inv['t'] = 'PortInvocationNode'
        if form == 1:
            return N('AssignmentNode', variable_access=g_variable_access(t, 1), expression=inv, _lead='send')
        return N('InvocationStatementNode', invocation=inv, _lead='send')
    if k == 11:
        kind = t.choice(['class', 'assigner', 'creator'])
        ty = 'GenerateCreatorEventNode' if kind == 'creator' else 'GenerateClassEventNode'
        return N(ty, event_specification=g_event_spec(t, depth), key_letter=t.choice(KEYLETTERS), _kind=kind)
    if k == 12:
        tgt = N('SelfAccessNode') if t.pick(3) == 2 else g_variable_access(t, 1)
        return N('GenerateInstanceEventNode', event_specification=g_event_spec(t, depth), variable_access=tgt)
    if k == 13:
        kind = t.choice(['class', 'assigner', 'creator'])
        ty = 'CreateCreatorEventNode' if kind == 'creator' else 'CreateClassEventNode'
        return N(ty, variable_name=g_name(t, VARS), event_specification=g_event_spec(t, depth),
                 key_letter=t.choice(KEYLETTERS), _kind=kind)
    if k == 14:
        tgt = N('SelfAccessNode') if t.pick(3) == 2 else g_variable_access(t, 1)
        return N('CreateInstanceEventNode', variable_name=g_name(t, VARS), event_specification=g_event_spec(t, depth),
                 to_variable_access=tgt)
    if k == 15:
        return N('GeneratePreexistingNode', variable_access=g_variable_access(t, 1))
    if k == 16:
        return N('CreateObjectNode', variable_name=g_name(t, VARS, KW_VARS), key_letter=t.choice(KEYLETTERS))
    if k == 17:
        return N('CreateObjectNoVariableNode', key_letter=t.choice(KEYLETTERS))
    if k == 18:
        return N('DeleteNode', variable_name=g_inst(t))
    if k in (19, 20):
        ty = t.choice(['RelateNode', 'RelateUsingNode', 'UnrelateNode', 'UnrelateUsingNode'])
        n = N(ty, from_variable_name=g_inst(t), to_variable_name=g_inst(t), rel_id=t.choice(RELS))
        g_phrase(t, n)
        if ty.endswith('UsingNode'):
            n['using_variable_name'] = g_inst(t)
        return n
    if k in (21, 22):
        card = t.choice(['any', 'many'])
        if t.flag():
            return N('SelectFromNode', cardinality=card, variable_name=g_name(t, VARS, KW_VARS), key_letter=t.choice(KEYLETTERS))
        return N('SelectFromWhereNode', cardinality=card, variable_name=g_name(t, VARS, KW_VARS),
                 key_letter=t.choice(KEYLETTERS), where_clause=g_expr(t, depth))
    card = t.choice(['one', 'any', 'many'])
    steps = [g_phrase(t, N('NavigationStepNode', key_letter=t.choice(KEYLETTERS), rel_id=t.choice(RELS)))
             for _ in range(1 + t.pick(3))]
    handle = N('SelfAccessNode') if t.pick(3) == 2 else g_variable_access(t, 1)
    chain = N('NavigationListNode', children=steps)
    if t.flag():
        return N('SelectRelatedNode', cardinality=card, variable_name=g_name(t, VARS), handle=handle, navigation_chain=chain)
    return N('SelectRelatedWhereNode', cardinality=card, variable_name=g_name(t, VARS), handle=handle,
             navigation_chain=chain, where_clause=g_expr(t, depth))


def g_statement(t, depth, edepth=2):
    k = t.pick(9) if depth > 0 else 0
    if k <= 5:
        return g_simple_statement(t, edepth)
    if k == 6:
        return N('ForEachNode', instance_variable_name=g_name(t, VARS), set_variable_name=g_name(t, VARS),
                 block=g_block(t, depth - 1, edepth))
    if k == 7:
        return N('WhileNode', expression=g_expr(t, edepth), block=g_block(t, depth - 1, edepth))
    cond = g_expr(t, edepth)
    blk = g_block(t, depth - 1, edepth)
    elifs = [N('ElIfNode', expression=g_expr(t, edepth), block=g_block(t, depth - 1, edepth)) for _ in range(t.pick(3))]
    els = N('ElseNode', block=g_block(t, depth - 1, edepth)) if t.flag() else None
    return N('IfNode', expression=cond, block=blk, elif_list=N('ElIfListNode', children=elifs), else_clause=els)


def g_block(t, depth, edepth=2, max_stmts=4):
    return block([g_statement(t, depth, edepth) for _ in range(t.pick(max_stmts + 1))])


def g_body(t, depth=2, edepth=2, max_stmts=5):
    return N('BodyNode', block=block([g_statement(t, depth, edepth) for _ in range(1 + t.pick(max_stmts))]))


def expressions(depth=3):
    return tapes(120, 12).map(lambda ints: g_expr(Tape(ints), depth))


def bodies(depth=2, edepth=2, max_stmts=5):
    return tapes(400, 40).map(lambda ints: g_body(Tape(ints), depth, edepth, max_stmts))


# -- layout --------------------------------------------------------------------------------------------------

GAPS = ['', '', ' ', ' ', ' ', '  ', '\t', '\n', '\n    ', ' \r\n', '\r', '\n\n', '\r\n\r\n', '\r\n \r\n\t', '\n\r\n', ' /* c */ ', '/**/', '/* a * b / c\n ** */',
        '// line comment\n', '//\n', '/* "q" \'t\' */', '// end if; x = 1\n', '/*\n\n*/',
        '/***/', '/****/', '/* boxed **/', '/*** b * ***/', '/* /* x **/', '/*/ */']
END_GAPS = [' ', '  ', '\t', '\n', ' \n  ', '\r\n', '\t \t', '\r\n\r\n']
PLAIN = [' ']


def layouts():
    return st.fixed_dictionaries({
        'gaps': st.lists(st.integers(0, len(GAPS) - 1), min_size=1, max_size=40).map(lambda ks: [GAPS[k] for k in ks]),
        'end_gaps': st.lists(st.integers(0, len(END_GAPS) - 1), min_size=1, max_size=6).map(lambda ks: [END_GAPS[k] for k in ks]),
        'choices': st.lists(st.integers(0, 5), min_size=1, max_size=30),
        'case': st.lists(st.integers(0, 3), min_size=1, max_size=20),
    })


def chooser(choices):
    """Deterministic chooser driven by a drawn integer list."""
    state = {'k': 0}

    def choose(key, options):
        v = choices[state['k'] % len(choices)]
        state['k'] += 1
        return options[v % len(options)]
    return choose


def caser(cases):
    state = {'k': 0}

    def case(word):
        v = cases[state['k'] % len(cases)]
        state['k'] += 1
        if v == 0:
            return word.lower()
        if v == 1:
            return word.upper()
        if v == 2:
            return word.capitalize()
        return ''.join(ch.upper() if (i + v) % 2 else ch.lower() for i, ch in enumerate(word))
    return case


# -- exhaustive expression trees -----------------------------------------------------------------------------

def trees(depth, leaves):
    """All expression trees of the given depth bound (operand = depth 1) over all operators."""
    if depth == 1:
        for l in leaves:
            yield l
        return
    sub = list(trees(depth - 1, leaves))
    for l in leaves:
        yield l
    for op in UNOPS:
        for t in sub:
            yield N('UnaryOperationNode', operator=op, operand=t)
    for op in BINOPS:
        for a, b in itertools.product(sub, repeat=2):
            yield N('BinaryOperationNode', left=a, operator=op, right=b)


def copy(n):
    if isinstance(n, dict):
        return dict((k, copy(v)) for k, v in n.items())
    if isinstance(n, list):
        return [copy(v) for v in n]
    return n
