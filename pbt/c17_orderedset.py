"""C17 - ordered sets behave as insertion-ordered mathematical sets.

Oracle: a plain model (list of elements whose relative order the property fixes,
plus a set of elements whose position it leaves open) driven by the same
operation sequence.  Exhaustive over short sequences on universe {0,1,2},
Hypothesis for long sequences over 8 elements.
"""
import itertools

from hypothesis import strategies as st

import xtuml
from .core import Violation, hyp_run, loop_run, Res, TimeLimit

PROPERTY = 'C17'
RULE = ('operation sequences over xtuml.OrderedSet and xtuml.QuerySet: exhaustive product of a '
        '54-call alphabet (add/discard/remove x, pop last/first, clear, iterate-discarding-current forwards and in reverse, '
        '|= &= -= ^= with operands [], [0], (1,2), OrderedSet[2,1,0], the repeating list [2,0,2] and self, |= with an operand that fails half way (iterator raising, unhashable element), & ^ &= -= with operands that can be walked once only (iterator, generator), s = s|&-^ operand) '
        'on universe {0,1,2} up to the stated length, plus Hypothesis sequences up to length 60 '
        'over 8 elements; full comparison with the list/set model after the last call of every '
        'sequence (every prefix is itself an enumerated sequence) and of every return value on '
        'the way. non-trivial = sequence contains a removal, an in-place algebra call and a '
        're-add of a previously removed element; distinct = by (class, sequence).')
ASSUMPTIONS = [
    'the operands of a binary operator are sets of their own: whatever is later done to the result must leave them as they were',
    'iteration order is demanded only among elements that arrived by add() or |=; elements that '
    'arrived through ^= or as the result of a binary | & - ^ are compared as a set only',
    'equality is exercised against duplicate-free list, tuple and OrderedSet operands only',
]

CLASSES = {'OrderedSet': xtuml.OrderedSet, 'QuerySet': xtuml.QuerySet}


class Model(object):
    def __init__(self):
        self.order = []      # elements with specified relative order
        self.loose = set()   # members whose position is unspecified

    def members(self):
        return set(self.order) | self.loose

    def add(self, x):
        if x not in self.order and x not in self.loose:
            self.order.append(x)

    def discard(self, x):
        if x in self.order:
            self.order.remove(x)
        self.loose.discard(x)


def operand(cls, spec, real):
    kind, vals = spec
    if kind == 'self':
        return real
    if kind == 'list':
        return list(vals)
    if kind == 'tuple':
        return tuple(vals)
    if kind == 'oset':
        return xtuml.OrderedSet(list(vals))
    if kind == 'same':
        return cls(list(vals))
    if kind == 'iter':
        return iter(list(vals))          # can be walked once only
    if kind == 'gen':
        return (v for v in list(vals))
    raise ValueError(kind)


def apply(cls, real, model, op, case, bystanders=None):
    """Apply one op to both; returns the (possibly new) real object."""
    name = op[0]

    def fail(bucket, detail):
        raise Violation('%s' % bucket, case, '%s at op %r' % (detail, op))

    before = list(real)
    if name == 'add':
        real.add(op[1]); model.add(op[1])
    elif name == 'discard':
        real.discard(op[1]); model.discard(op[1])
    elif name == 'remove':
        x = op[1]
        if x in model.members():
            real.remove(x); model.discard(x)
        else:
            try:
                real.remove(x)
            except KeyError:
                pass
            else:
                fail('remove-missing-no-keyerror', 'remove of a missing element did not raise KeyError')
            if list(real) != before:
                fail('remove-missing-changed-set', 'rejected remove changed the set')
    elif name == 'pop':
        last = op[1]
        if not model.members():
            try:
                real.pop(last)
            except KeyError:
                pass
            else:
                fail('pop-empty-no-keyerror', 'pop on empty set did not raise KeyError')
        else:
            got = real.pop() if (last and op[2]) else real.pop(last)
            want = before[-1] if last else before[0]
            if got != want:
                fail('pop-%s-wrong-element' % ('last' if last else 'first'),
                     'pop returned %r, iteration before was %r' % (got, before))
            if not model.loose:
                mw = model.order[-1] if last else model.order[0]
                if got != mw:
                    fail('pop-not-insertion-order', 'pop returned %r, model order %r' % (got, model.order))
            model.discard(got)
    elif name == 'clear':
        real.clear(); model.order = []; model.loose = set()
    elif name == 'iterdiscard':
        pred = op[1]
        visited = []
        rev = len(op) > 2 and op[2] == 'rev'
        for x in (reversed(real) if rev else real):
            visited.append(x)
            if pred == 'all' or (pred == 'even' and x % 2 == 0) or (pred == 'odd' and x % 2 == 1):
                real.discard(x)
                model.discard(x)
        if visited != (list(reversed(before)) if rev else before):
            fail('iterate-while-discarding' + ('-reversed' if rev else ''), 'visited %r, set before was %r' % (visited, before))
    elif name in ('ior', 'iand', 'isub', 'ixor'):
        isself = op[1][0] == 'self'
        o = operand(cls, op[1], real)
        vals = list(before) if isself else list(dict.fromkeys(op[1][1]))   # an operand listing an element twice denotes the same set
        ident = real
        if name == 'ior':
            real |= o
            for v in vals:
                model.add(v)
        elif name == 'iand':
            real &= o
            for v in list(model.members()):
                if v not in vals:
                    model.discard(v)
        elif name == 'isub':
            real -= o
            for v in vals:
                model.discard(v)
        elif name == 'ixor':
            real ^= o
            if isself:
                model.order = []; model.loose = set()
            else:
                for v in vals:
                    if v in model.members():
                        model.discard(v)
                    else:
                        model.loose.add(v)
        if real is not ident:
            fail('inplace-op-not-inplace', 'in-place operator returned a different object')
    elif name == 'ior_fail':
        # an in-place union whose operand fails half way (an element that cannot be hashed, or an iterator that raises):
        # the exception reaches the caller and the set stays an ordered set - whatever arrived before the failure is in it
        vals, k, how = list(op[1]), op[2], op[3]

        def failing():
            for v in vals[:k]:
                yield v
            if how == 'raise':
                raise ValueError('operand failed')
            yield []
            for v in vals[k:]:
                yield v
        ident = real
        try:
            real |= (failing() if how == 'raise' or op[4] else list(failing()))
        except (ValueError, TypeError):
            pass
        else:
            fail('failing-operand-no-exception', 'in-place union with a failing operand returned normally')
        if real is not ident:
            fail('inplace-op-not-inplace', 'in-place operator rebound the name although it raised')
        now = list(real)
        if not (set(before) <= set(now) <= set(before) | set(vals)) or len(set(now)) != len(now):
            fail('failed-union-wrong-elements', 'before %r, operand %r failing at %d, after %r' % (before, vals, k, now))
        for v in now:
            model.add(v)
    elif name in ('or', 'and', 'sub', 'xor'):
        o = operand(cls, op[1], real)
        vals = set(op[1][1])
        mem = model.members()
        if name == 'or':
            new, want = real | o, mem | vals
        elif name == 'and':
            new, want = real & o, mem & vals
        elif name == 'sub':
            new, want = real - o, mem - vals
        else:
            new, want = real ^ o, mem ^ vals
        if list(real) != before:
            fail('binary-op-mutated-operand', 'binary operator changed its left operand')
        if not isinstance(new, xtuml.OrderedSet):
            fail('binary-op-result-type', 'result is %r' % type(new))
        if bystanders is not None:
            # the sequence goes on with the RESULT; the operands are sets of their own and nothing is done to them any more
            bystanders.append((real, list(before), 'left operand of %r' % (op,)))
            if isinstance(o, xtuml.OrderedSet) and o is not real:
                bystanders.append((o, list(dict.fromkeys(op[1][1])), 'right operand of %r' % (op,)))
        real = new
        model.order = []
        model.loose = set(want)
    else:
        raise ValueError(op)
    return real


def compare(cls, real, model, universe, case):
    def fail(bucket, detail):
        raise Violation(bucket, case, detail)

    L = list(real)
    mem = model.members()
    if len(set(L)) != len(L):
        fail('duplicate-in-iteration', 'iteration %r has duplicates' % L)
    if set(L) != mem:
        fail('wrong-elements', 'iteration %r, model set %r' % (L, sorted(mem)))
    if len(real) != len(mem):
        fail('len-disagrees', 'len %d, model %d' % (len(real), len(mem)))
    oset = set(model.order)
    sub = [x for x in L if x in oset]
    if sub != model.order:
        fail('not-insertion-order', 'iteration %r, first-insertion order %r' % (L, model.order))
    R = list(reversed(real))
    if R != L[::-1]:
        fail('reversed-not-reverse', 'reversed %r, iteration %r' % (R, L))
    for x in universe:
        if (x in real) != (x in mem):
            fail('membership-disagrees', '%r in set is %r, model %r' % (x, x in real, x in mem))
    if bool(real) != bool(mem):
        fail('truthiness', 'bool %r' % bool(real))
    if isinstance(real, xtuml.QuerySet):
        f, l = real.first, real.last
        if f != (L[0] if L else None) or l != (L[-1] if L else None):
            fail('first-last-disagree', 'first %r last %r iteration %r' % (f, l, L))
    # equality: exactly the ordered collections with same elements in same order
    same = [list(L), tuple(L), xtuml.OrderedSet(L), cls(L)]
    for o in same:
        if not (real == o) or (real != o):
            fail('eq-same-order-false', '%r == %r is false' % (L, o))
    diff = []
    if len(L) >= 2:
        diff.append(L[::-1])
        diff.append(L[1:] + L[:1])
    if L:
        diff.append(L[:-1])
        diff.append(L[1:])
    extra = [x for x in universe if x not in mem]
    if extra:
        diff.append(L + [extra[0]])
        diff.append([extra[0]] + L)
        if L:
            diff.append(L[:-1] + [extra[0]])
    # elements that are no members of the universe, among them values a careless comparison confuses with 'no element'
    for odd in (None, 0.5):
        diff.append(L + [odd])
        diff.append([odd] + L)
    for d in diff:
        for o in (list(d), tuple(d), xtuml.OrderedSet(d)):
            if (real == o) or not (real != o):
                fail('eq-different-true', '%r == %r is true' % (L, o))
    # set relations against the mathematical set
    for other in ([], list(universe)[:1], list(universe)):
        so = set(other)
        if real.isdisjoint(other) != mem.isdisjoint(so):
            fail('isdisjoint', 'isdisjoint(%r) with %r' % (other, L))
        if (real <= xtuml.OrderedSet(other)) != (mem <= so):
            fail('subset', '%r <= %r' % (L, other))
        if (real >= xtuml.OrderedSet(other)) != (mem >= so):
            fail('superset', '%r >= %r' % (L, other))


def run_sequence(clsname, seq, universe):
    cls = CLASSES[clsname]
    case = {'cls': clsname, 'ops': [list(o) if not isinstance(o, str) else o for o in seq]}
    real = cls()
    model = Model()
    try:
        # a corrupted ring of nodes makes iteration run for ever: that is a wrong answer, not a reason to wait
        with TimeLimit(10):
            bystanders = []
            for op in seq:
                real = apply(cls, real, model, op, case, bystanders)
                for obj, snap, what in bystanders:
                    if obj is not real and (list(obj) != snap or len(obj) != len(snap) or list(reversed(obj)) != snap[::-1]):
                        raise Violation('operand-changed-by-later-operation-on-result', case,
                                        'the %s held %r; after %r (applied to the result) it holds %r' % (what, snap, op, list(obj)))
            compare(cls, real, model, universe, case)
    except TimeLimit.Expired:
        raise Violation('does-not-terminate', case, 'a call on the set (iteration, len, comparison ...) did not return within 10 s', fatal=True)


def is_nontrivial(seq):
    removed = set()
    removal = inplace = readd = False
    present = set()
    for op in seq:
        n = op[0]
        if n in ('discard', 'remove'):
            if op[1] in present:
                removal = True
                removed.add(op[1]); present.discard(op[1])
        elif n == 'pop' or n == 'iterdiscard' or n == 'clear':
            if present:
                removal = True
                removed |= present      # conservative: which ones is op-dependent
                if n == 'clear' or (n == 'iterdiscard' and op[1] == 'all'):
                    present = set()
        elif n == 'add':
            if op[1] in removed and op[1] not in present:
                readd = True
            present.add(op[1])
        elif n == 'ior_fail':
            inplace = True
            present |= set(op[1][:op[2]])
        elif n in ('ior', 'iand', 'isub', 'ixor'):
            inplace = True
            if n in ('ior', 'ixor') and op[1][0] != 'self':
                for v in op[1][1]:
                    if v in removed and v not in present:
                        readd = True
                    present.add(v)
    return removal and inplace and readd


def alphabet(universe, reduced=False):
    u = list(universe)
    ops = []
    for x in u:
        ops.append(('add', x))
    for x in u:
        ops.append(('discard', x))
    for x in u:
        ops.append(('remove', x))
    ops += [('pop', True, True), ('pop', False, True), ('clear',),
            ('iterdiscard', 'all'), ('iterdiscard', 'even'), ('iterdiscard', 'all', 'rev'), ('iterdiscard', 'even', 'rev')]
    operands = [('list', ()), ('list', (0,)), ('tuple', (1, 2)), ('oset', (2, 1, 0)), ('self', ()), ('list', (2, 0, 2))]
    if reduced:
        operands = [('list', (0,)), ('oset', (2, 1, 0)), ('self', ())]
    for n in ('ior', 'iand', 'isub', 'ixor'):
        for o in operands:
            ops.append((n, o))
    ops += [('ior_fail', (0, 1), 1, 'raise', True), ('ior_fail', (2, 1), 2, 'hash', True)]
    if not reduced:
        for n in ('or', 'and', 'sub', 'xor'):
            for o in (('list', (0,)), ('oset', (1, 2))):
                ops.append((n, o))
        ops += [('or', ('oset', ())), ('sub', ('list', ()))]          # nothing to add / to take away
        # operands that can be walked only once
        ops += [('and', ('iter', (2, 1, 0))), ('xor', ('gen', (1, 0))), ('iand', ('iter', (2, 0))), ('isub', ('gen', (1, 2)))]
    return ops


def op_strategy(universe):
    u = st.sampled_from(universe)
    vals = st.one_of(st.lists(u, unique=True, max_size=6), st.lists(u, max_size=6)).map(tuple)
    operand_s = st.one_of(
        st.tuples(st.sampled_from(['list', 'tuple', 'oset', 'same', 'iter', 'gen']), vals),
        st.just(('self', ())))
    return st.one_of(
        st.tuples(st.just('add'), u), st.tuples(st.just('add'), u),
        st.tuples(st.just('discard'), u), st.tuples(st.just('remove'), u),
        st.tuples(st.just('pop'), st.booleans(), st.booleans()),
        st.just(('clear',)),
        st.tuples(st.just('iterdiscard'), st.sampled_from(['all', 'even', 'odd'])),
        st.tuples(st.just('iterdiscard'), st.sampled_from(['all', 'even', 'odd']), st.just('rev')),
        st.tuples(st.sampled_from(['ior', 'iand', 'isub', 'ixor']), operand_s),
        st.tuples(st.sampled_from(['or', 'and', 'sub', 'xor']),
                  st.tuples(st.sampled_from(['list', 'tuple', 'oset', 'same', 'iter', 'gen']), vals)),
        st.tuples(st.just('ior_fail'), st.lists(u, min_size=1, max_size=5).map(tuple), st.integers(0, 5),
                  st.sampled_from(['raise', 'hash']), st.booleans()).map(lambda t: (t[0], t[1], min(t[2], len(t[1])), t[3], t[4])),
    )


def selftest():
    # the model itself on hand-checked cases
    m = Model()
    for x in (2, 0, 1):
        m.add(x)
    m.discard(0); m.add(0)
    assert m.order == [2, 1, 0]
    assert is_nontrivial([('add', 0), ('discard', 0), ('add', 0), ('ior', ('list', (1,)))])
    assert not is_nontrivial([('add', 0), ('add', 1)])


def run(ctx):
    res = Res()
    uni = (0, 1, 2)

    def body(case):
        clsname, seq = case
        try:
            run_sequence(clsname, seq, uni if all(_small(o) for o in seq) else tuple(range(8)))
        except Violation:
            raise
        except Exception as e:
            from .core import exc_bucket
            raise Violation('exception:' + exc_bucket(e), {'cls': clsname, 'ops': [list(o) for o in seq]},
                            repr(e))
        finally:
            nt = is_nontrivial(seq)
            res.case((clsname, seq), nt, sample={'cls': clsname, 'ops': seq} if nt else None,
                     classes=('len%d' % len(seq),))

    full = alphabet(uni)
    red = alphabet(uni, reduced=True)
    plan = [(full, ctx.pick(3, 4))]
    if not ctx.quick:
        plan.append((red, 5))

    def cases():
        idx = 0
        for alpha, maxlen in plan:
            for n in range(0, maxlen + 1):
                if alpha is red and n <= 4:
                    continue
                for seq in itertools.product(alpha, repeat=n):
                    idx += 1
                    if idx % ctx.nshards != ctx.shard:
                        continue
                    for clsname in ('OrderedSet', 'QuerySet'):
                        yield (clsname, seq)

    loop_run(ctx, res, cases(), body)
    for alpha, maxlen in plan:
        res.exhaustive_parts.append(
            'all sequences of length 0..%d over a %d-call alphabet on universe {0,1,2}, both classes: %d'
            % (maxlen, len(alpha), 2 * sum(len(alpha) ** n for n in range(maxlen + 1))))

    # random long sequences over 8 elements
    uni8 = tuple(range(8))
    strat = st.tuples(st.sampled_from(['OrderedSet', 'QuerySet']),
                      st.lists(op_strategy(uni8), min_size=5, max_size=60).map(tuple))
    hyp_run(ctx, res, strat, body, ctx.pick(1500, 6000), label='long')
    return res


def _small(op):
    if op[0] in ('add', 'discard', 'remove'):
        return op[1] in (0, 1, 2)
    if len(op) > 1 and isinstance(op[1], tuple) and len(op[1]) == 2 and isinstance(op[1][1], tuple):
        return all(v in (0, 1, 2) for v in op[1][1])
    return True


def replay(case):
    seq = tuple(_tup(o) for o in case['ops'])
    run_sequence(case['cls'], seq, tuple(range(8)))


def _tup(o):
    if isinstance(o, (list, tuple)):
        return tuple(_tup(x) for x in o)
    return o
