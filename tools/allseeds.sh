#!/bin/bash
# tools/allseeds.sh [pattern]  -- re-runs every seeded/<id>/patch.diff against the quick check of its property (5 in parallel)
# and writes seeded/RESULTS.json (which seeds the committed checks detect).
cd "$(dirname "$0")/.."
pat="${1:-}"
tmp=$(mktemp /tmp/seedres-XXXXXX)
ls -d seeded/C*/ | grep "$pat" | xargs -P ${SEED_JOBS:-8} -I{} bash -c 'd={}; n=$(basename $d); c=${n%%-*}; out=$(MUT_LINES=3 tools/mutant.sh $d/patch.diff $c 2>&1 | head -4 | tr "\n" " " | cut -c1-260); echo "$n: $out"' | tee $tmp
python3 - "$tmp" <<'PY'
import json, re, sys
res = {}
for line in open(sys.argv[1]):
    name, _, rest = line.partition(': ')
    m = re.search(r'exit=(\d+)', rest)
    b = re.search(r'bucket: (\S+)', rest)
    res[name] = {'detected': bool(m and m.group(1) == '1'), 'exit': int(m.group(1)) if m else None, 'first_bucket': b.group(1) if b else None}
import os
if os.path.exists('seeded/RESULTS.json'):
    old = json.load(open('seeded/RESULTS.json'))['results']      # a run restricted by a pattern updates its entries only
    old.update(res)
    res = dict((k, v) for k, v in old.items() if os.path.isdir('seeded/' + k))
json.dump({'tier': 'quick', 'results': res, 'detected': sum(1 for v in res.values() if v['detected']), 'total': len(res)},
          open('seeded/RESULTS.json', 'w'), indent=1, sort_keys=True)
for name, v in res.items():
    mp = 'seeded/%s/meta.json' % name
    if os.path.exists(mp):
        meta = json.load(open(mp))
        meta['check_result_current'] = {'detected': v['detected'], 'first_bucket': v['first_bucket'], 'tier': 'quick'}
        json.dump(meta, open(mp, 'w'), indent=1)
print('detected', sum(1 for v in res.values() if v['detected']), 'of', len(res))
PY
rm -f $tmp
