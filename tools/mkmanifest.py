#!/usr/bin/env python3
"""Regenerates MANIFEST.json from the table below (run from /verif)."""
import json
import os

HERE = os.path.dirname(os.path.dirname(os.path.abspath(__file__)))

# id -> (technique, level text, level note, design ref)
CHECKS = {
    'C17': ('exhaustive operation-sequence enumeration + Hypothesis sequences vs list/set model',
            'Every call sequence up to the stated length over a 42-call alphabet on a 3-element universe is '
            'executed on OrderedSet and QuerySet and compared with a list/set model (complete inside that '
            'bound), plus Hypothesis-generated sequences up to length 60 over 8 elements. Bounded exploration; '
            'a defect needing a longer sequence over more elements than sampled is missed.',
            'Trusted: the harness model (plain list + set); iteration order demanded only among elements '
            'that arrived by add/|=.', 'DESIGN.md 3 C17'),
}

CHECKS.update({
    'C02': ('exhaustive short histories + Hypothesis histories vs relational shadow model (state compared after every call)',
            'Every history up to the stated length over a fixed alphabet of concrete relate/unrelate/delete/new calls on six '
            'fixed schemas is executed and the complete observable state compared with a plain relational model after each '
            'call (complete inside that bound); Hypothesis adds long histories over generated schemas. Bounded exploration.',
            'Trusted: harness shadow model (pbt/shadow.py) and its self-test. relate/unrelate are only given live instances.',
            'DESIGN.md 3 C02'),
    'C09': ('Hypothesis model states (API histories and dirty loads) x generated queries vs shadow evaluation',
            'Generated query and navigation forms are evaluated on generated model states and compared with an independent '
            'evaluation over the relational shadow (filters, stable sort, duplicate-free union in encounter order). Bounded exploration.',
            'Trusted: shadow evaluation; ordering only on plain attributes.', 'DESIGN.md 3 C09'),
    'C10': ('exhaustive call sequences over all case patterns of short names + Hypothesis long sequences vs dict model',
            'All sequences up to the stated length over writes/deletes/referential writes/relate/new under every case pattern '
            'of 2-letter names are executed and every spelling is read back, serialized and queried (complete in that bound); '
            'Hypothesis adds sequences up to 30 over longer names.',
            'Trusted: dict model keyed by declared name; see ASSUMPTIONS in the evidence.', 'DESIGN.md 3 C10'),
    'C11': ('Hypothesis models (dirty loads, API histories) vs violation counts computed on the shadow; CLI in-process and sub-process',
            'Reported counts of every check function, every restriction and both command-line tools are compared with counts '
            'computed independently on the relational shadow for generated models. Bounded exploration.',
            'Trusted: shadow counting (self-tested on a hand-counted population); harness regex reader of bridgepoint/schema.py.',
            'DESIGN.md 3 C11'),
    'C16': ('exhaustive enumeration of chain arrangements x member orders + Hypothesis, constructive oracle',
            'Every arrangement of up to 5 (quick) / 6 (thorough) instances into ordered chains, every member order, both '
            'phrases, plus rings and a termination-only domain; expected order is constructed by the harness.',
            'Trusted: constructive oracle; 10 s alarm decides termination.', 'DESIGN.md 3 C16'),
    'C19': ('Hypothesis creation sequences and generator call sequences vs default/argument model',
            'Generated schemas (all core types in any letter case, unknown types, a referential attribute) and creation '
            'sequences with positional/keyword/omitted arguments under three id generators are compared with a model of '
            'defaults-then-positional-then-keyword; stand-alone generators exhaustively for call sequences up to length 5.',
            'Trusted: the argument model; uniqueness demanded among defaulted ids only.', 'DESIGN.md 3 C19'),
})

CHECKS.update({
    'C01': ('Hypothesis schemas x resolvable populations x every serialization route; round trip against a harness-computed description + fixed point',
            'Generated metamodels (shape grammar, hard values, keyword identifiers) are built through the API, sent through '
            'each route and the reloaded model is compared, by public reads, with a description the harness computes from the '
            'generated case; second and third generation texts must be identical. Bounded exploration.',
            'Trusted: the expected-description code and the shadow link derivation. Carriage returns through the file '
            'routes are a recorded known finding (excluded by construction, counted).', 'DESIGN.md 3 C01'),
    'C03': ('Hypothesis dirty populations x statement permutations / partitions / files / directory trees / zip; key-join oracle, canonical-form invariance, API differential',
            'Links of the loaded model are compared with a key-join computed by the harness; a canonical form must be '
            'identical across drawn (thorough: all, for <= 6 statements) permutations, partitions into inputs and files, '
            'and bridgepoint directory / zip containers; the same rows created through new()/clone() must give the same links.',
            'Trusted: harness key-join and SQL writer. The API-equivalence clause on phrase-bearing associations is a '
            'recorded known finding (MetaClass.new direction bug pinned by the test-suite).', 'DESIGN.md 3 C03'),
    'C12': ('Hypothesis text / token soup / single-edit mutants / input histories + pumped inputs + coverage-guided fuzzing (atheris/libFuzzer, token-level mutator) of ModelLoader.input/build; exception-class, loader-snapshot, differential-build and alarm oracles',
            'Every input() must return or raise ParsingException within 10 s and leave loader.statements unchanged when it '
            'raises; every build must return or raise a ParsingException/MetaException and equal the build of a fresh '
            'loader fed only the accepted inputs. Bounded exploration.',
            'Trusted: structural snapshot of loader.statements; 10 s alarm as the bounded-time criterion.', 'DESIGN.md 3 C12'),
    'C18': ('Hypothesis histories of input / build / mutate on one loader; snapshot non-interference + fresh-loader differential',
            'After every mutation of one built metamodel all the others must re-serialize to their snapshots and keep their '
            'canonical form; every build must equal the build of a fresh loader fed the same inputs.',
            'Trusted: serialize + navigation-based canonical form as the notion of "visible".', 'DESIGN.md 3 C18'),
})

CHECKS.update({
    'C04': ('Hypothesis typed OAL programs x populations; differential against a reference evaluator over the relational shadow',
            'Type-correct programs over a nine-class schema are run by bridgepoint.interpret and by an independent reference '
            'evaluator; return value and complete final population must agree. Programs without a language-defined meaning '
            'are discarded and counted. Bounded exploration.',
            'Trusted: pbt/oalref.py (self-tested), the typed generator, the discard rules listed in the evidence.', 'DESIGN.md 3 C04'),
    'C07': ('exhaustive expression trees (depth <= 3, all operators) + Hypothesis deep trees and bodies over every statement production with drawn layout; AST -> text -> parse round trip on regenerated tables',
            'Every expression tree up to depth three is printed with exactly the parentheses the documented table requires and '
            'must parse back to the same tree (complete inside that bound); Hypothesis adds deeper trees with redundant '
            'parentheses and bodies over all statement productions with random layout, comments, keyword case and optional words.',
            'Trusted: the harness printer/minimal-parenthesisation (self-tested on hand-checked samples) and the strict tree comparison. '
            'PLY tables are regenerated from the working tree, so grammar edits are visible.', 'DESIGN.md 3 C07'),
    'C08': ('Hypothesis metamorphic relation: re-cased keywords vs lower-case body (parse trees, interpreter result + final population vs reference)',
            'Bodies over every production are parsed in lower case and under a drawn per-occurrence case map and the trees '
            'compared; typed programs are interpreted under a case map and compared with the reference evaluator.',
            'Trusted: as C04/C07. The prebuild clause is exercised by the prebuild part once the C05/C06 machinery is in place.',
            'DESIGN.md 3 C08'),
    'C13': ('Hypothesis text / token soup / mutants + pumped inputs + coverage-guided fuzzing (atheris/libFuzzer, token-level mutator) of oal.parse under an alarm (totality) with a position self-consistency predicate on every accepted text; printer-computed spans vs recorded positions for bodies with drawn layout',
            'parse must return a tree or raise ParseException within 10 s on every generated input, and in every accepted text each statement / '
            'expression node must name, by its recorded line and column, exactly the stretch of text it records, inside its enclosing node; for generated bodies every '
            'statement and expression node must carry exactly the start/end line and column and source substring that the '
            'harness printer computed from token offsets.',
            'Trusted: printer offsets (self-tested on hand-laid text); 10 s alarm as the bounded-time criterion.', 'DESIGN.md 3 C13'),
})

CHECKS.update({
    'C14': ('Hypothesis abstract class diagrams + edit scripts -> harness-synthesised ooaofooa rows (drawn row order) -> component; compared with a description computed from the diagram; SQL-schema round trip',
            'Synthesised BridgePoint class models (and the shipped Simple_Model lifted by the harness reader), after drawn edits, '
            'are extracted through build_component / mk_component / load_component / gen_sql_schema and compared with the '
            'classes, attribute order and types, identifiers and associations the diagram prescribes.',
            'Trusted: pbt/bpmodel.py row synthesiser and expected_component (validated on Simple_Model.xtuml: lift -> rows -> '
            'load gives the same description as the original file).', 'DESIGN.md 3 C14'),
    'C15': ('Hypothesis call graphs inside a synthesised component; differential against the reference evaluator with call semantics',
            'Generated functions, bridges, class/instance operations and a derived attribute (typed OAL bodies calling each '
            'other, recursion, every return form, shared variable names) are invoked from Python and from OAL and compared '
            'with the reference evaluator; enumerators and constants are compared with the modelled order / values under '
            'shuffled row order.',
            'Trusted: pbt/oalref.py call semantics, pbt/bpmodel.py rows; error-prone graphs are discarded and counted.', 'DESIGN.md 3 C15'),
    'C20': ('Hypothesis diagrams + edit scripts -> rows -> build_schema / gen_xsd_schema.main; declared elements, attributes and simple types vs the set computed from the diagram',
            'The generated XSD is parsed (well-formedness) and its class elements, attributes with types and simple types are '
            'compared with exactly the set the diagram prescribes, for synthesised models and the shipped model after drawn edits.',
            'Trusted: expected() in pbt/c20_xsd.py and the row synthesiser; predefined unsupported global types are ignored.', 'DESIGN.md 3 C20'),
})

CHECKS.update({
    'C05': ('Hypothesis name-resolved bodies in every action home of a synthesised model; prebuild -> gen_text_action -> parse round trip (strict tree equality) + second-generation fixed point',
            'Generated bodies (all listed statement forms incl. invocations with parameters, array elements, enumerators, '
            'constants of two groups, generate / create event statements with event data, reads of received event data) placed in function / bridge / '
            'operation / derived-attribute / state-action / transition-action homes of a model with three state machines are prebuilt, regenerated as text and '
            'must parse to the same tree as the original; the generated text prebuilt in a fresh model must regenerate itself.',
            'Trusted: strict parsed-vs-parsed tree comparison (keyword fields folded, implicit/class/bridge invocation node '
            'classes merged), the row synthesiser.', 'DESIGN.md 3 C05'),
    'C06': ('Hypothesis fixtures of C05; validity predicates computed by the harness from printer spans, a scoping/typing walk over the generated AST and its own multiplicity/uniqueness counter',
            'After prebuild the harness counts multiplicity and uniqueness violations itself over the ooaofooa schema, checks '
            'subtype counts, the persisted R661 / R816 (invocation parameters and event data) / R604 references against source order, statement and value positions '
            'against printer spans, variable-to-block relations against a scoping walk, and R820/R848 types against a typing walk.',
            'Trusted: printer spans, Scopes/Expect walk in pbt/c06_prebuild_wf.py, harness reading of bridgepoint/schema.py. Known finding '
            '(recorded, excluded by its exact witness, counted): V_EPR.PP_Id null for reads of state machine event data (DESIGN 9.6).', 'DESIGN.md 3 C06, 9.6'),
})
CHECKS['C08'] = ('Hypothesis metamorphic relation: re-cased keywords vs lower-case body (parse trees; interpreter result + final population vs reference; prebuilt instance multisets + regenerated text)',
                 'Bodies over every production are parsed in lower case and under a drawn per-occurrence case map (optional words drawn '
                 'too) and the trees compared; typed programs are interpreted under a case map and compared with the reference '
                 'evaluator; fixtures are prebuilt from lower-case and re-cased sources and the Body/Value/Event instances compared '
                 'attribute by attribute without ids, positions and labels.',
                 'Trusted: as C04/C05/C07.', 'DESIGN.md 3 C08')

NOT_APPLICABLE = {
}


def main():
    props = [json.loads(l)['id'] for l in open(os.path.join(HERE, 'properties.jsonl'))]
    checks = []
    for pid in props:
        if pid not in CHECKS:
            continue
        tech, text, note, ref = CHECKS[pid]
        checks.append({
            'property_id': pid,
            'quick_cmd': './check %s --tier quick' % pid,
            'thorough_cmd': './check %s --tier thorough' % pid,
            'evidence_file': '/verif/evidence/%s.json' % pid,
            'replay_cmd_template': './check %s --replay {path}' % pid,
            'engine': 'pbt',
            'level_claimed': {'category': 'exploration', 'text': text, 'design_ref': ref},
            'level_note': note,
            'technique': tech,
        })
    na = []
    for pid in props:
        if pid in CHECKS:
            continue
        na.append({'property_id': pid,
                   'reason': NOT_APPLICABLE.get(pid, 'check not built yet (in progress); the technique applies, '
                                                'see DESIGN.md section 3')})
    manifest = {
        'version': 1,
        'setup_cmd': 'bash tools/setup.sh',
        'hooks': {
            'guard': 'PYXTUML_VERIF',
            'enable': 'no hooks are needed: every observation point is public API; checks import a fresh '
                      'copy of /repo/xtuml and /repo/bridgepoint and regenerate the PLY tables (pbt/build.py)',
            'baseline_off_cmd': 'cd /repo && /venv/bin/python -m pytest -q -p no:cacheprovider tests',
            'source_commits': [],
            'add_only': True,
        },
        'engines': [{
            'name': 'pbt', 'path': '/verif/pbt',
            'serves_properties': [c['property_id'] for c in checks],
            'kind_free_text': 'Hypothesis 6.168 property-based tests, stateful histories, coverage-guided fuzzing (atheris 3.1, C12/C13) and exhaustive '
                              'small-scope enumeration against harness-side reference models',
        }],
        'checks': checks,
        'not_applicable': na,
        'notes': 'VERIF_SEED selects the Hypothesis seed (default 1); --tier or VERIF_TIER selects the depth. '
                 'exit 2 = harness error. Known findings: /verif/known_findings.json.',
    }
    with open(os.path.join(HERE, 'MANIFEST.json'), 'w') as f:
        json.dump(manifest, f, indent=1)
        f.write('\n')


if __name__ == '__main__':
    main()
