#!/bin/bash
# tools/run_with_tree.sh <tree> <script.py|tests> [args...]
# Runs a script (or the pinned test suite) with xtuml/bridgepoint imported from <tree> rather than /repo:
# the editable-install finder is removed, <tree> goes first on sys.path and the git-ignored PLY tables of
# <tree> are deleted first so that grammar edits are visible.
set -u
tree=$(realpath "$1"); shift
what=$1; shift
[ "$what" = tests ] || what=$(realpath "$what")
find "$tree/xtuml" "$tree/bridgepoint" -name '__*tab.py' -delete 2>/dev/null
find "$tree" -name '__pycache__' -type d -prune -exec rm -rf {} + 2>/dev/null
export PYTHONDONTWRITEBYTECODE=1 WITH_TREE="$tree"
cd "$tree" || exit 2
if [ "$what" = tests ]; then
  exec timeout 900 /venv/bin/python /verif/tools/_with_tree.py --pytest -q -p no:cacheprovider tests "$@" </dev/null
else
  exec timeout "${DEMO_TIMEOUT:-300}" /venv/bin/python /verif/tools/_with_tree.py "$what" "$@" </dev/null
fi
