"""C08 part (3): prebuilt instances are independent of keyword case (filled in with the C05/C06 machinery)."""


def run_part(ctx, res):
    return


def replay(case):
    return
