"""C01 - persisted models load back unchanged (schema, values, links)."""
import os

from hypothesis import strategies as st

import xtuml
from . import gen_schema, popgen, build
from .core import Violation, hyp_run, Res, exc_bucket, sha
from .gen_schema import Schema, default_of

PROPERTY = 'C01'
RULE = ('Hypothesis: schema from the shape grammar (simple / reflexive / association-class / sub-supertype, multi-attribute '
        'keys of id, integer and string type, keyword identifiers, types in any letter case) x resolvable population '
        'built through the API (new + relate; or, in a third of the cases, instances first with plain values in the referential '
        'attributes, then batch_relate() + formalize() of every association, then some links removed again) x route (serialize_database; serialize_schema/instances/'
        'unique_identifiers as three input() calls in a drawn order; persist_database; persist_schema/instances/'
        'unique_identifiers into three files loaded in a drawn order; instances-only text without CREATE TABLE) x '
        'some values set to None; a quarter of the models were saved once and then edited (a plain attribute replaced by a new one '
        'of another type at the same position) before the save that is checked. Oracle: the reloaded metamodel equals a description computed by the harness from the '
        'generated case (classes, typed attributes, identifiers, associations with keys/multiplicity/conditionality/'
        'phrases, instance sequences with values, link sets navigated in both directions); serialize() dispatch equals '
        'the dedicated functions; second and third generation texts are identical. non-trivial = >= 2 classes, >= 1 '
        'association with >= 1 link and >= 1 hard value (quote, --, newline, NUL, non-ASCII, negative or > 64-bit '
        'integer, |real| >= 1e15 or < 1e-6, id >= 2^64, keyword identifier); distinct = by case.')
ASSUMPTIONS = [
    'reals are compared after rounding to the six decimals the format carries; unset (None) equals the null of its type',
    "strings do not contain '\\r' on the general domain (probed separately; see known findings)",
    'without CREATE TABLE only instance sequences and values (Python equality) are demanded, as the format carries no schema',
]

ROUTES = ['database', 'three-inputs', 'persist-database', 'persist-three', 'instances-only']
KEYWORDS = set(['TABLE', 'FROM', 'TRUE', 'M', 'MC', 'VALUES', 'INDEX', 'ROP', 'UNIQUE', 'TO', 'ON', 'PHRASE',
                'REF_ID', 'INSERT', 'SELF'])


@st.composite
def cases(draw, cr=False, phrases=None):
    schema_js = draw(gen_schema.schemas(max_classes=4, max_assocs=4, typecase=draw(st.booleans())))
    if phrases:
        # the same rewriting for every occurrence, so distinct phrases stay distinct
        suffix = draw(st.sampled_from(phrases))
        for a in schema_js['assocs']:
            for k in ('src_phrase', 'tgt_phrase'):
                if a[k]:
                    a[k] = a[k] + suffix
    pop = draw(popgen.resolvable(schema_js, max_rows=4, hard=True, cr=cr))
    sc = Schema(schema_js)
    if cr:
        # construct rather than filter: put a carriage return into drawn string values
        for _cn, row in pop['rows']:
            for n in sorted(row):
                if isinstance(row[n], str) and draw(st.booleans()):
                    k = draw(st.integers(0, len(row[n])))
                    row[n] = row[n][:k] + draw(st.sampled_from(['\r', '\r\n', 'x\r'])) + row[n][k:]
    unset = []
    per = {}
    for cn, row in pop['rows']:
        k = per.get(cn, 0)
        per[cn] = k + 1
        ident = set()
        for u in sc.uniques:
            if u['cls'] == cn:
                ident |= set(u['attrs'])
        for a in sc.assocs:
            if a['tgt'] == cn:
                ident |= set(a['tgt_keys'])
        for n in row:
            if n not in ident and draw(st.integers(0, 7)) == 0:
                unset.append([cn, k, n])
    # a third of the models are built the other way round: instances first (referential attributes holding plain values),
    # then batch_relate() + formalize() of every association, then some of the links are removed again
    late = draw(st.integers(0, 2)) == 0
    drop = sorted(draw(st.sets(st.integers(0, max(len(pop['links']) - 1, 0)), max_size=3))) if late and pop['links'] else []
    edits = []
    if draw(st.integers(0, 3)) == 0:
        edits = [[draw(st.integers(0, 9)), draw(st.integers(0, 9)), draw(st.sampled_from(['INTEGER', 'STRING', 'BOOLEAN', 'REAL', 'UNIQUE_ID']))]
                 for _ in range(draw(st.integers(1, 2)))]
    return {'schema': schema_js, 'pop': pop, 'route': draw(st.sampled_from(ROUTES)),
            'order': draw(st.permutations([0, 1, 2])), 'unset': unset, 'late': late, 'drop': drop, 'edits': edits,
            # a quarter of the loads are preceded, on the same loader, by a damaged copy of the text that the loader rejects
            'spoil': draw(st.one_of(st.none(), st.none(), st.none(), st.integers(0, 39)))}


def dropped_links(case):
    """indexes (into pop.links) of the links removed again in a 'late' model: only where the format can show the
    difference - every referential attribute has a type with a null value and is not itself identifying"""
    if not case.get('late'):
        return []
    sc = Schema(case['schema'])
    out = []
    for li in case.get('drop', []):
        if li >= len(case['pop']['links']):
            continue
        a = sc.assocs[case['pop']['links'][li][0]]
        ident = set()
        for u in sc.uniques:
            if u['cls'] == a['src']:
                ident |= set(u['attrs'])
        for b in sc.assocs:
            if b['tgt'] == a['src']:
                ident |= set(b['tgt_keys'])
        shared = [b for b in sc.assocs if b is not a and b['src'] == a['src'] and set(b['src_keys']) & set(a['src_keys'])]
        if shared or set(a['src_keys']) & ident:
            continue
        if all(sc.attr_type(a['src'], k).upper() in ('UNIQUE_ID', 'STRING') for k in a['src_keys']):
            out.append(li)
    return out


def final_links(case):
    gone = set(dropped_links(case))
    return [l for li, l in enumerate(case['pop']['links']) if li not in gone]


def build_m0(case):
    schema_js = case['schema']
    sc = Schema(schema_js)
    if case.get('late'):
        return build_m0_late(case)
    m = gen_schema.build_api(schema_js)
    insts = {}
    for cn, row in case['pop']['rows']:
        late = dict((k, v) for k, v in row.items() if k in ('self', 'kind'))
        inst = m.new(cn, **dict((k, v) for k, v in row.items() if k not in late))
        for k, v in late.items():
            setattr(inst, k, v)
        insts.setdefault(cn.upper(), []).append(inst)
    for i, s, t in case['pop']['links']:
        a = sc.assocs[i]
        ok = xtuml.relate(insts[a['src'].upper()][s], insts[a['tgt'].upper()][t], a['rel'], a['src_phrase'])
        assert ok is True
    for cn, k, n in case['unset']:
        setattr(insts[cn.upper()][k], n, None)
    return m, insts


def build_m0_late(case):
    schema_js = case['schema']
    sc = Schema(schema_js)
    m = gen_schema.build_api(schema_js, formalize=False)
    sh, recs = popgen.shadow_from_links(schema_js, case['pop']['rows'], case['pop']['links'])
    insts = {}
    per = {}
    for cn, row in case['pop']['rows']:
        k = per.get(cn.upper(), 0)
        per[cn.upper()] = k + 1
        r = recs[cn.upper()][k]
        full = dict((n, sh.attr(r, n)) for n, _t in sc.attrs(cn))        # referential values as the links define them
        odd = dict((n, v) for n, v in full.items() if n in ('self', 'kind'))
        inst = m.new(cn, **dict((n, v) for n, v in full.items() if n not in odd))
        for n, v in odd.items():
            setattr(inst, n, v)
        insts.setdefault(cn.upper(), []).append(inst)
    for ass in m.associations:
        ass.batch_relate()
    for ass in m.associations:
        ass.formalize()
    for li in dropped_links(case):
        i, s_, t_ = case['pop']['links'][li]
        a = sc.assocs[i]
        ok = xtuml.unrelate(insts[a['src'].upper()][s_], insts[a['tgt'].upper()][t_], a['rel'], a['src_phrase'])
        assert ok is True
    for cn, k, n in case['unset']:
        setattr(insts[cn.upper()][k], n, None)
    return m, insts


def expected(case, with_schema=True):
    """Description of the metamodel that must come back, computed from the generated case."""
    schema_js = case['schema']
    sc = Schema(schema_js)
    sh, recs = popgen.shadow_from_links(schema_js, case['pop']['rows'], final_links(case))
    unset = set((cn.upper(), k, n) for cn, k, n in case['unset'])
    d = {'classes': {}, 'assocs': [], 'instances': {}, 'links': {}}
    for c in sc.classes:
        K = c['name'].upper()
        d['classes'][K] = {'kind': c['name'], 'attrs': [[n, t.upper()] for n, t in c['attrs']],
                           'indices': dict((u['name'], list(u['attrs'])) for u in sc.uniques if u['cls'] == c['name'])}
        rows = []
        for k, r in enumerate(recs.get(K, [])):
            vals = []
            for n, t in c['attrs']:
                v = sh.attr(r, n)
                if (K, k, n) in unset or v is None:
                    v = default_of(t)
                if t.upper() == 'REAL':
                    v = float('%f' % v)
                vals.append(v)
            rows.append(vals)
        d['instances'][K] = rows
    for i, a in enumerate(sc.assocs):
        d['assocs'].append(['R%d' % a['rel'], a['src'], list(a['src_keys']), a['src_many'], a['src_cond'], a['src_phrase'],
                            a['tgt'], list(a['tgt_keys']), a['tgt_many'], a['tgt_cond'], a['tgt_phrase']])
        pairs = set()
        for s, t in sh.links[i]:
            pairs.add((recs[a['src'].upper()].index(s), recs[a['tgt'].upper()].index(t)))
        d['links'][_akey(d['assocs'][-1])] = pairs
    d['assocs'].sort(key=repr)
    return d


def _akey(a):
    return repr([a[0], a[1].upper(), a[5], a[6].upper(), a[10], a[2]])


def describe(m, case):
    def fail(bucket, detail):
        raise Violation(bucket, case, detail)
    d = {'classes': {}, 'assocs': [], 'instances': {}, 'links': {}}
    for K, mc in m.metaclasses.items():
        d['classes'][K] = {'kind': mc.kind, 'attrs': [[n, t.upper()] for n, t in mc.attributes],
                           'indices': dict((k, list(v)) for k, v in mc.indices.items())}
        rows = []
        for inst in m.select_many(mc.kind):
            rows.append([getattr(inst, n) for n, _ in mc.attributes])
        d['instances'][K] = rows
    for ass in m.associations:
        sk = ass.source_link.to_metaclass.kind
        tk = ass.target_link.to_metaclass.kind
        rec = [ass.rel_id, sk, list(ass.source_keys), bool(ass.source_link.many), bool(ass.source_link.conditional),
               ass.target_link.phrase, tk, list(ass.target_keys), bool(ass.target_link.many),
               bool(ass.target_link.conditional), ass.source_link.phrase]
        d['assocs'].append(rec)
        srcs = list(m.select_many(sk))
        tgts = list(m.select_many(tk))
        fwd, bwd = set(), set()
        for si, s in enumerate(srcs):
            for t in xtuml.navigate_many(s).nav(tk, ass.rel_id, ass.target_link.phrase)():
                fwd.add((si, _pos(tgts, t)))
        for ti, t in enumerate(tgts):
            for s in xtuml.navigate_many(t).nav(sk, ass.rel_id, ass.source_link.phrase)():
                bwd.add((_pos(srcs, s), ti))
        if fwd != bwd:
            fail('reloaded-links-asymmetric', '%s fwd %r bwd %r' % (ass.rel_id, sorted(fwd), sorted(bwd)))
        d['links'][_akey(rec)] = fwd
    d['assocs'].sort(key=repr)
    return d


def _pos(lst, x):
    for i, y in enumerate(lst):
        if x is y:
            return i
    return -1


def veq(a, b):
    if isinstance(a, bool) or isinstance(b, bool):
        return isinstance(a, bool) and isinstance(b, bool) and a == b
    if isinstance(a, float) or isinstance(b, float):
        return isinstance(a, float) and isinstance(b, float) and a == b
    return type(a) is type(b) and a == b


def compare(want, got, case, tag):
    def fail(bucket, detail):
        raise Violation('%s:%s' % (tag, bucket), case, detail)
    if sorted(want['classes']) != sorted(got['classes']):
        fail('class-set', 'want %r got %r' % (sorted(want['classes']), sorted(got['classes'])))
    for K in want['classes']:
        w, g = want['classes'][K], got['classes'][K]
        if w['kind'] != g['kind'] or w['attrs'] != g['attrs']:
            fail('class-attributes', '%s: want %r got %r' % (K, w, g))
        if w['indices'] != g['indices']:
            fail('unique-identifiers', '%s: want %r got %r' % (K, w['indices'], g['indices']))
        wi, gi = want['instances'][K], got['instances'][K]
        if len(wi) != len(gi):
            fail('instance-count', '%s: want %d got %d' % (K, len(wi), len(gi)))
        for k, (wr, gr) in enumerate(zip(wi, gi)):
            for (n, t), wv, gv in zip(w['attrs'], wr, gr):
                if gv is None:
                    gv = default_of(t)      # unset is indistinguishable from the null of its type
                if not veq(wv, gv):
                    fail('value:%s' % t, '%s[%d].%s want %r got %r' % (K, k, n, wv, gv))
    if want['assocs'] != got['assocs']:
        fail('associations', 'want %r got %r' % (want['assocs'], got['assocs']))
    for k in want['links']:
        if want['links'][k] != got['links'].get(k):
            fail('links', '%s want %r got %r' % (k, sorted(want['links'][k]), sorted(got['links'].get(k, []))))


def load_text(parts, spoil=None):
    l = xtuml.ModelLoader()
    if spoil is not None and parts:
        # a damaged copy first (cut off inside a statement, as a half-written file would be): the loader turns it down and is
        # then given the intact text; what comes back must be the saved model, nothing of the damaged copy
        whole = parts[spoil % len(parts)]
        cut = whole[:max(len(whole) * (3 + spoil % 5) // 8, 1)].rstrip().rstrip(';') + ' ('
        try:
            l.input(cut)
        except xtuml.ParsingException:
            SPOILED[0] += 1
        else:
            l = xtuml.ModelLoader()         # the cut happened to leave an acceptable text: not the situation meant here
    for p in parts:
        l.input(p)
    return l.build_metamodel(xtuml.IntegerGenerator())


SPOILED = [0]


def edited(case):
    """-> (the case as it reads after its schema edits, [(class, replaced attribute, position, new name, new type, value)])
    An edit replaces one plain (not identifying, not referential) attribute by a new one of a drawn type at the same
    position: the number of columns stays what it was."""
    import copy
    c = copy.deepcopy(case)
    sc = Schema(case['schema'])
    applied = []
    for k, (ci, ai, ty) in enumerate(case.get('edits') or []):
        cls = c['schema']['classes'][ci % len(c['schema']['classes'])]
        cn = cls['name']
        ident = set(sc.referentials(cn))
        for u in sc.uniques:
            if u['cls'] == cn:
                ident |= set(u['attrs'])
        for a in sc.assocs:
            if a['tgt'] == cn:
                ident |= set(a['tgt_keys'])
        cands = [i for i, (n, t) in enumerate(cls['attrs']) if n not in ident and n not in ('self', 'kind') and not n.startswith('Zq_e')]
        if not cands:
            continue
        pos = cands[ai % len(cands)]
        old = cls['attrs'][pos][0]
        new = 'Zq_e%d' % k
        val = {'INTEGER': 7 + k, 'STRING': "edited %d's" % k, 'BOOLEAN': True, 'REAL': 2.5 + k, 'UNIQUE_ID': 900000 + k}[ty]
        cls['attrs'][pos] = [new, ty]
        for cn2, row in c['pop']['rows']:
            if cn2 == cn:
                row.pop(old, None)
                row[new] = val
        c['unset'] = [u for u in c['unset'] if not (u[0] == cn and u[2] == old)]
        applied.append((cn, old, pos, new, ty, val))
    return c, applied


def run_case(case, res=None):
    SPOILED[0] = 0
    orig = case

    def fail(bucket, detail):
        raise Violation(bucket, orig, detail)

    if case['pop'].get('unresolvable'):
        if res is not None:
            res.discarded['population not expressible by key values (%s)' % case['pop']['unresolvable']] += 1
        return
    try:
        m0, insts = build_m0(case)
    except Exception as e:
        fail('harness-build-m0:' + exc_bucket(e), repr(e))
    n_edits = 0
    if case.get('edits'):
        # the model was saved once, then some of its classes were edited: what is written now is the model as it is now
        case, applied = edited(case)
        n_edits = len(applied)
        if applied:
            try:
                xtuml.serialize_database(m0)
                for cn, old, pos, new, ty, val in applied:
                    mc = m0.find_metaclass(cn)
                    mc.delete_attribute(old)
                    mc.insert_attribute(pos, new, ty)
                    for inst in m0.select_many(cn):
                        setattr(inst, new, val)
            except Exception as e:
                fail('harness-edit-m0:' + exc_bucket(e), repr(e))
    route = case['route']
    tmp = build.tmpdir()
    tag = sha(orig)[:10]
    files = []
    try:
        try:
            if route == 'database':
                text = xtuml.serialize_database(m0)
                if xtuml.serialize(m0) != text:
                    fail('serialize-dispatch-metamodel', 'serialize(m) != serialize_database(m)')
                m1 = load_text([text], case.get('spoil'))
            elif route == 'three-inputs':
                parts = [xtuml.serialize_schema(m0), xtuml.serialize_instances(m0), xtuml.serialize_unique_identifiers(m0)]
                m1 = load_text([parts[i] for i in case['order']], case.get('spoil'))
            elif route == 'persist-database':
                p = os.path.join(tmp, 'c01-%d-%s.sql' % (os.getpid(), tag))
                files.append(p)
                xtuml.persist_database(m0, p)
                m1 = xtuml.load_metamodel(p)
            elif route == 'persist-three':
                ps = [os.path.join(tmp, 'c01-%d-%s-%d.sql' % (os.getpid(), tag, i)) for i in range(3)]
                files.extend(ps)
                xtuml.persist_schema(m0, ps[0])
                xtuml.persist_instances(m0, ps[1])
                xtuml.persist_unique_identifiers(m0, ps[2])
                m1 = xtuml.load_metamodel([ps[i] for i in case['order']])
            else:
                text = xtuml.serialize_instances(m0)
                m1 = load_text([text], case.get('spoil'))
        except Violation:
            raise
        except Exception as e:
            fail('%s:exception:%s' % (route, exc_bucket(e)), repr(e))
        # dispatch equals the dedicated functions
        for mc in m0.metaclasses.values():
            if xtuml.serialize(mc.clazz) != xtuml.serialize_class(mc.clazz):
                fail('serialize-dispatch-class', mc.kind)
            for inst in mc.storage[:2]:
                if xtuml.serialize(inst) != xtuml.serialize_instance(inst):
                    fail('serialize-dispatch-instance', mc.kind)
        for ass in m0.associations:
            if xtuml.serialize(ass) != xtuml.serialize_association(ass):
                fail('serialize-dispatch-association', ass.rel_id)
        if route != 'instances-only':
            want = expected(case)
            got = describe(m1, case)
            compare(want, got, case, route)
        else:
            want = expected(case)
            for K, rows in want['instances'].items():
                if not rows:
                    if K in m1.metaclasses and len(m1.select_many(K)):
                        fail('instances-only:spurious-instances', K)
                    continue
                if K not in m1.metaclasses:
                    fail('instances-only:class-missing', K)
                mc = m1.metaclasses[K]
                got_rows = [[getattr(i, n) for n, _ in mc.attributes] for i in m1.select_many(K)]
                if len(got_rows) != len(rows):
                    fail('instances-only:instance-count', '%s want %d got %d' % (K, len(rows), len(got_rows)))
                for k, (wr, gr) in enumerate(zip(rows, got_rows)):
                    gr = [w if g is None and w == default_of_value(w) else g for w, g in zip(wr, gr)]
                    if len(wr) != len(gr) or any(not (w == g) for w, g in zip(wr, gr)):
                        fail('instances-only:value', '%s[%d] want %r got %r' % (K, k, wr, gr))
        # fixed point after one round
        try:
            t2 = xtuml.serialize(m1)
            m2 = load_text([t2], case.get('spoil'))
            t3 = xtuml.serialize(m2)
        except Exception as e:
            fail('second-round:exception:%s' % exc_bucket(e), repr(e))
        if route == 'instances-only':
            # without CREATE TABLE the first reload keeps the statement order of the classes; the text is
            # demanded stable from the second generation on
            t2 = t3
            t3 = xtuml.serialize(load_text([t2]))
        if t2 != t3:
            fail('%s:no-fixed-point' % ('instances-only' if route == 'instances-only' else 'with-schema'),
                 'second and third generation texts differ:\n%s' % _firstdiff(t2, t3))
    finally:
        for f in files:
            if os.path.exists(f):
                os.unlink(f)
    if res is not None:
        hard = hard_value(case)
        nt = len(case['schema']['classes']) >= 2 and bool(case['pop']['links']) and hard
        cl = ['route-' + route]
        for a in case['schema']['assocs']:
            cl.append('shape-' + a['shape'])
        if case['pop']['links']:
            cl.append('has-links')
        if hard:
            cl.append('hard-value')
        if case['unset']:
            cl.append('has-unset')
        if n_edits:
            cl.append('saved-then-edited')
        if case.get('late'):
            cl.append('built-instances-first')
            if dropped_links(case):
                cl.append('links-removed-again')
        if SPOILED[0]:
            cl.append('damaged-copy-rejected-first')
            SPOILED[0] = 0
        res.case(orig, nt, sample=orig if nt and len(repr(orig)) < 1900 else None, classes=sorted(set(cl)))


def default_of_value(w):
    return {bool: False, int: 0, float: 0.0, str: ''}.get(type(w), None)


def _firstdiff(a, b):
    al, bl = a.splitlines(), b.splitlines()
    for i, (x, y) in enumerate(zip(al, bl)):
        if x != y:
            return 'line %d: %r vs %r' % (i + 1, x, y)
    return 'length %d vs %d lines' % (len(al), len(bl))


def hard_value(case):
    for c in case['schema']['classes']:
        if c['name'].upper() in KEYWORDS or any(a[0].upper() in KEYWORDS for a in c['attrs']):
            return True
    for _cn, row in case['pop']['rows']:
        for v in row.values():
            if isinstance(v, str) and (any(ch in v for ch in "'\n\x00\"") or '--' in v or any(ord(ch) > 127 for ch in v)):
                return True
            if isinstance(v, bool):
                continue
            if isinstance(v, int) and (v < 0 or v >= 2 ** 64):
                return True
            if isinstance(v, float) and v != 0 and (abs(v) >= 1e15 or abs(v) < 1e-6 or v < 0):
                return True
    return False


def selftest():
    assert veq(1, 1) and not veq(True, 1) and not veq(1.0, 1) and veq('a', 'a')
    assert float('%f' % 1e-7) == 0.0


def _has_cr(case):
    return any(isinstance(v, str) and '\r' in v for _c, row in case['pop']['rows'] for v in row.values())


def run(ctx):
    res = Res()

    def body(case):
        try:
            run_case(case, res)
        except Violation:
            raise
        except Exception as e:
            raise Violation('harness-exception:' + exc_bucket(e), case, repr(e))

    def cr_body(case):
        try:
            body(case)
        except Violation as v:
            # is the failure explained by the file routes turning '\r' and '\r\n' into '\n'?
            import json
            norm = json.loads(json.dumps(case).replace('\\r\\n', '\\n').replace('\\r', '\\n'))
            try:
                run_case(norm)
            except Violation:
                raise v
            raise Violation('carriage-return-translated-by-file-route', case, v.detail)

    hyp_run(ctx, res, cases(), body, ctx.pick(1200, 3000), label='roundtrip')
    hyp_run(ctx, res, cases(cr=True), cr_body, ctx.pick(100, 500), label='carriage-return')
    hyp_run(ctx, res, cases(phrases=["'s", "'", " a''b", "' -- y"]), body, ctx.pick(60, 300), label='phrase-quote')
    return res


def replay(case):
    try:
        run_case(case)
    except Violation as v:
        if _has_cr(case):
            import json
            norm = json.loads(json.dumps(case).replace('\\r\\n', '\\n').replace('\\r', '\\n'))
            try:
                run_case(norm)
            except Violation:
                raise v
            raise Violation('carriage-return-translated-by-file-route', case, v.detail)
        raise
