"""C16 - reflexive sorting yields the succession order and terminates."""
import itertools

from hypothesis import strategies as st

import xtuml
from .core import Violation, hyp_run, loop_run, Res, exc_bucket, TimeLimit
from .gen_schema import build_api

PROPERTY = 'C16'
RULE = ('arrangements of n instances (labelled by creation order) into a set of ordered chains over a reflexive '
        'conditional 1:1 association, handed to sort_reflexive as a QuerySet in a chosen member order, for both '
        "phrases and int / 'Rn' ids; expected order built constructively by the harness (chains in order of their "
        'head in the input set, from the member without a partner across the phrase along the opposite phrase; '
        'the other phrase gives each chain reversed; a ring once around from the first member of the set). '
        'Half of the arrangements are built through a detour history (links made and removed, refused relates, deleted '
        'neighbours) and a third of those are also sorted while being built (before the first relate and after every finished '
        'chain): a sort is a query and must not change a later answer. '
        'Exhaustive for small n (see exhaustive_parts), Hypothesis for n <= 40, plus a termination-only domain '
        '(subsets of chains, ring+chain mixtures: returns in time, no duplicates, only members). '
        'non-trivial = >= 2 chains, one of length >= 2, and succession order differs from creation order; '
        'distinct = by (chains, set order, phrase).')
ASSUMPTIONS = [
    'the order among different chains is that of their heads in the input set (the statement fixes contiguity '
    'and the order inside a chain; the order among chains is taken from the documented first-instance filter)',
    'termination is decided by a 10 s alarm per call on inputs of <= 40 instances',
]

SCHEMA = {'classes': [{'name': 'P', 'attrs': [['Id', 'UNIQUE_ID'], ['Prev_Id', 'UNIQUE_ID'], ['Other_Id', 'UNIQUE_ID']]}],
          'assocs': [{'rel': 4, 'shape': 'reflexive', 'src': 'P', 'src_keys': ['Prev_Id'], 'src_many': False,
                      'src_cond': True, 'src_phrase': 'prev', 'tgt': 'P', 'tgt_keys': ['Id'], 'tgt_many': False,
                      'tgt_cond': True, 'tgt_phrase': 'next'},
                     # a second ordering of the same class under the same two phrases (as I_EVI R2908 / R2939 in ooaofooa)
                     {'rel': 5, 'shape': 'reflexive', 'src': 'P', 'src_keys': ['Other_Id'], 'src_many': False,
                      'src_cond': True, 'src_phrase': 'prev', 'tgt': 'P', 'tgt_keys': ['Id'], 'tgt_many': False,
                      'tgt_cond': True, 'tgt_phrase': 'next'}],
          'uniques': [{'cls': 'P', 'name': 'I1', 'attrs': ['Id']}]}


def build(n, chains, rings=(), detour=False, probe=None):
    """chain [c0, c1, ..]: c0 refers to c1 ('prev' from c0 reaches c1, 'next' from c1 reaches c0).
    detour: the instances were first linked into one chain in creation order (and partly the other way round) and
    unlinked again - the succession order is a function of the present links only."""
    m = build_api(SCHEMA)
    inst = [m.new('P') for _ in range(n)]
    if detour and n >= 2:
        # the other ordering arranges the same instances differently (one chain against creation order)
        for a, b in zip(range(n - 1, 0, -1), range(n - 2, -1, -1)):
            assert xtuml.relate(inst[a], inst[b], 5, 'prev')
    if probe:
        probe(m, inst, [])             # nothing related yet: every instance is a chain of its own
    if detour and n >= 2:
        for a, b in zip(range(n), range(1, n)):
            assert xtuml.relate(inst[a], inst[b], 4, 'prev')
        for a, b in zip(range(n), range(1, n)):
            assert xtuml.unrelate(inst[a], inst[b], 4, 'prev')
        assert xtuml.relate(inst[n - 1], inst[0], 4, 'prev')
        assert xtuml.unrelate(inst[0], inst[n - 1], 4, 'next')
    for k, ch in enumerate(chains):
        for a, b in zip(ch, ch[1:]):
            assert xtuml.relate(inst[a], inst[b], 4, 'prev')
        if probe and len(ch) >= 2 and k + 1 < len(chains):
            probe(m, inst, chains[:k + 1])          # sorting is a query: asking early changes no later answer
    if detour and chains:
        # two further instances stood at both ends of the first chain and were deleted again
        ch = chains[0]
        v1, v2 = m.new('P'), m.new('P')
        assert xtuml.relate(inst[ch[-1]], v1, 4, 'prev')
        assert xtuml.relate(v2, inst[ch[0]], 4, 'prev')
        xtuml.delete(v1)
        xtuml.delete(v2)
    for rg in rings:
        for a, b in zip(rg, list(rg[1:]) + [rg[0]]):
            assert xtuml.relate(inst[a], inst[b], 4, 'prev')
    if detour:
        # the caller looked at every member's neighbours and used the returned sets up: results are values, not the links
        for x in inst:
            for phrase in ('prev', 'next'):
                r = xtuml.navigate_many(x).P[4, phrase]()
                while len(r):
                    r.pop()
    if detour and n >= 2 and not rings:
        # relate attempts on the finished arrangement: a refused one leaves no trace, an accepted one is undone at once
        linked = set((a, b) for ch in chains for a, b in zip(ch, ch[1:]))
        for x in range(n):
            for y in range(n):
                if x == y or (n >= 5 and (x + 2 * y + n) % 3):
                    continue
                for phrase in ('prev', 'next'):
                    pair = (x, y) if phrase == 'prev' else (y, x)
                    if pair in linked:
                        continue               # relating a linked pair again is not part of this history
                    try:
                        ok = xtuml.relate(inst[x], inst[y], 4, phrase)
                    except xtuml.RelateException:
                        continue
                    if ok:
                        assert xtuml.unrelate(inst[x], inst[y], 4, phrase)
    return m, inst


def expected(chains, order, phrase):
    """Constructive oracle."""
    pos = dict((x, i) for i, x in enumerate(order))
    out = []
    if phrase == 'prev':
        # first = member with no partner across 'prev' = the last of the chain; then along 'next' = backwards
        seqs = [list(reversed(ch)) for ch in chains]
    else:
        seqs = [list(ch) for ch in chains]
    seqs.sort(key=lambda s: pos[s[0]])
    for s in seqs:
        out.extend(s)
    return out


def expected_ring(ring, order, phrase):
    start = order[0]
    k = ring.index(start)
    rot = ring[k:] + ring[:k]            # following 'prev' from start
    if phrase == 'prev':
        # walk along the opposite phrase 'next': reverse direction
        return [rot[0]] + list(reversed(rot[1:]))
    return rot


def check_sort(chains, order, case, rings=(), n=None):
    n = n if n is not None else sum(len(c) for c in chains) + sum(len(r) for r in rings)
    detour = (sum(order) + len(chains) + n) % 2 == 1 if case.get('detour') is None else case['detour']

    def probe(m, inst, done):
        # the arrangement while it is being built: the chains finished so far, every other instance on its own
        rest = set(range(n)) - set(x for ch in done for x in ch)
        sort_and_compare(m, inst, list(done) + [[x] for x in sorted(rest)], order, case, (), n, early=True)

    early = detour and not rings and (sum(order) + n) % 3 != 0
    m, inst = build(n, chains, rings, detour=detour, probe=probe if early else None)
    sort_and_compare(m, inst, chains, order, case, rings, n)


def sort_and_compare(m, inst, chains, order, case, rings, n, early=False):
    idx = dict((id(x), i) for i, x in enumerate(inst))
    for phrase in ('prev', 'next'):
        for rel in (4, 'R4'):
            if early and rel == 'R4':
                continue
            if list(order) == list(range(n)) and rel == 4:
                qs = m.select_many('P')
            else:
                qs = xtuml.QuerySet([inst[i] for i in order])
            try:
                with TimeLimit(10):
                    got = xtuml.sort_reflexive(qs, rel, phrase)
                    got = [idx[id(x)] for x in got]
            except TimeLimit.Expired:
                raise Violation('does-not-terminate', case, 'sort_reflexive did not return within 10 s')
            except Exception as e:
                raise Violation('exception:' + exc_bucket(e), case, repr(e))
            if rings and not chains and len(rings) == 1:
                want = expected_ring(list(rings[0]), list(order), phrase)
            elif not rings:
                want = expected(chains, order, phrase)
            else:
                want = None
            if want is not None and got != want:
                kind = 'ring' if rings else 'chains'
                raise Violation('wrong-order-%s%s' % (kind, '-while-building' if early else ''), case,
                                'phrase %r rel %r: got %r want %r' % (phrase, rel, got, want))
            if len(set(got)) != len(got):
                raise Violation('duplicates', case, 'got %r' % got)
            if not set(got) <= set(order):
                raise Violation('non-member-returned', case, 'got %r set %r' % (got, list(order)))


def arrangements(n):
    """All sets of ordered chains partitioning range(n)."""
    seen = set()
    for perm in itertools.permutations(range(n)):
        for cuts in itertools.product([0, 1], repeat=n - 1):
            chains = []
            cur = [perm[0]]
            for c, x in zip(cuts, perm[1:]):
                if c:
                    chains.append(tuple(cur))
                    cur = [x]
                else:
                    cur.append(x)
            chains.append(tuple(cur))
            key = frozenset(chains)
            if key in seen:
                continue
            seen.add(key)
            yield sorted(chains)


def nontrivial(chains, order):
    if len(chains) < 2 or max(len(c) for c in chains) < 2:
        return False
    flat = [x for c in chains for x in c]
    return any(list(c) != sorted(c) for c in chains) or flat != sorted(flat)


@st.composite
def random_cases(draw):
    n = draw(st.integers(2, 40))
    perm = draw(st.permutations(list(range(n))))
    chains = []
    cur = [perm[0]]
    for x in perm[1:]:
        if draw(st.integers(0, 3)) == 0:
            chains.append(cur); cur = [x]
        else:
            cur.append(x)
    chains.append(cur)
    order = draw(st.permutations(list(range(n))))
    return {'chains': chains, 'order': list(order)}


@st.composite
def termination_cases(draw):
    n = draw(st.integers(1, 24))
    perm = draw(st.permutations(list(range(n))))
    groups = []
    cur = [perm[0]]
    for x in perm[1:]:
        if draw(st.integers(0, 3)) == 0:
            groups.append(cur); cur = [x]
        else:
            cur.append(x)
    groups.append(cur)
    chains, rings = [], []
    for g in groups:
        (rings if draw(st.integers(0, 2)) == 0 else chains).append(g)
    members = [x for x in draw(st.permutations(list(range(n)))) if draw(st.integers(0, 4)) > 0]
    return {'chains': chains, 'rings': rings, 'order': members, 'n': n, 'termination_only': True}


def selftest():
    assert len(list(arrangements(3))) == 13 and len(list(arrangements(4))) == 73
    assert expected([(0, 1, 2)], [0, 1, 2], 'next') == [0, 1, 2]
    assert expected([(0, 1, 2)], [0, 1, 2], 'prev') == [2, 1, 0]
    assert expected([(2, 0), (1,)], [1, 0, 2], 'prev') == [1, 0, 2]
    assert expected_ring([0, 1, 2], [1, 2, 0], 'next') == [1, 2, 0]
    assert expected_ring([0, 1, 2], [1, 2, 0], 'prev') == [1, 0, 2]


def run(ctx):
    res = Res()
    nmax = ctx.pick(5, 6)

    def body(case):
        chains = [tuple(c) for c in case.get('chains', [])]
        rings = [tuple(r) for r in case.get('rings', [])]
        order = case['order']
        if case.get('termination_only'):
            m, inst = build(case['n'], chains, rings)
            idx = dict((id(x), i) for i, x in enumerate(inst))
            for phrase in ('prev', 'next'):
                try:
                    with TimeLimit(10):
                        got = [idx[id(x)] for x in xtuml.sort_reflexive(xtuml.QuerySet([inst[i] for i in order]), 4, phrase)]
                except TimeLimit.Expired:
                    raise Violation('does-not-terminate', case, 'no return within 10 s')
                except Exception as e:
                    raise Violation('exception:' + exc_bucket(e), case, repr(e))
                if len(set(got)) != len(got) or not set(got) <= set(order):
                    raise Violation('termination-domain-bad-result', case, 'got %r set %r' % (got, order))
            res.case(case, bool(rings) and bool(chains), classes=('termination-only',))
            return
        check_sort(chains, order, case, rings=rings)
        nt = (not rings) and nontrivial(chains, order)
        res.case(case, nt, sample=case if nt else None,
                 classes=('ring',) if rings else ('chains',))

    def exhaustive():
        idx = 0
        yield {'chains': [], 'order': []}
        for n in range(1, nmax + 1):
            for chains in arrangements(n):
                for order in itertools.permutations(range(n)):
                    idx += 1
                    if idx % ctx.nshards != ctx.shard:
                        continue
                    yield {'chains': [list(c) for c in chains], 'order': list(order)}
        if not ctx.quick:
            n = 7
            import random
            rnd = random.Random(ctx.derive(7))
            for chains in arrangements(n):
                idx += 1
                if idx % ctx.nshards != ctx.shard:
                    continue
                orders = [list(range(n)), list(range(n - 1, -1, -1))]
                for _ in range(4):
                    o = list(range(n)); rnd.shuffle(o); orders.append(o)
                for order in orders:
                    yield {'chains': [list(c) for c in chains], 'order': order}
        # single rings of every length <= 7, every ring order for n <= 5, every member as first
        for n in range(1, 8):
            rings = itertools.permutations(range(1, n)) if n <= 5 else [tuple(range(1, n)), tuple(range(n - 1, 0, -1))]
            for rest in rings:
                ring = [0] + list(rest)
                for k in range(n):
                    order = list(range(k, n)) + list(range(k))
                    idx += 1
                    if idx % ctx.nshards != ctx.shard:
                        continue
                    yield {'chains': [], 'rings': [ring], 'order': order}
                    yield {'chains': [], 'rings': [ring], 'order': list(reversed(order))}

    def empty_body(case):
        if case['order'] == [] and not case.get('rings'):
            m = build_api(SCHEMA)
            for phrase in ('prev', 'next'):
                got = xtuml.sort_reflexive(m.select_many('P'), 4, phrase)
                if list(got) != []:
                    raise Violation('empty-set-not-empty', case, repr(got))
            res.case(case, False, classes=('empty',))
            return
        body(case)

    loop_run(ctx, res, exhaustive(), empty_body)
    res.exhaustive_parts.append('all arrangements of n<=%d labelled instances into ordered chains x all n! member '
                                'orders x both phrases x int/str rel id' % nmax)
    if not ctx.quick:
        res.exhaustive_parts.append('n=7: all 37633 arrangements x 6 member orders (not exhaustive in member order)')
    res.exhaustive_parts.append('single rings: every ring order for n<=5, two for n=6,7; every rotation and its reverse as member order')
    hyp_run(ctx, res, random_cases(), body, ctx.pick(300, 2000), label='random')
    hyp_run(ctx, res, termination_cases(), body, ctx.pick(300, 2000), label='termination')
    return res


def replay(case):
    r = Res()
    chains = [tuple(c) for c in case.get('chains', [])]
    rings = [tuple(x) for x in case.get('rings', [])]
    if case.get('termination_only'):
        m, inst = build(case['n'], chains, rings)
        idx = dict((id(x), i) for i, x in enumerate(inst))
        for phrase in ('prev', 'next'):
            try:
                with TimeLimit(10):
                    got = [idx[id(x)] for x in xtuml.sort_reflexive(
                        xtuml.QuerySet([inst[i] for i in case['order']]), 4, phrase)]
            except TimeLimit.Expired:
                raise Violation('does-not-terminate', case, 'no return within 10 s')
            if len(set(got)) != len(got) or not set(got) <= set(case['order']):
                raise Violation('termination-domain-bad-result', case, 'got %r' % got)
        return
    if not case['order']:
        return
    check_sort(chains, case['order'], case, rings=rings)
