#!/usr/bin/env python3
"""tools/regress_validate.py [property]  -- for every 'fixed' entry of known_findings.json: undo the fix commit in a scratch copy
of /repo and replay the recorded regression case against it; the replay must FAIL there (otherwise the regression case
no longer exercises what was fixed, e.g. because a tape-driven generator changed) and PASS on /repo."""
import json, os, subprocess, sys, tempfile, shutil

os.chdir(os.path.join(os.path.dirname(os.path.abspath(__file__)), '..'))
only = sys.argv[1] if len(sys.argv) > 1 else None
kf = json.load(open('known_findings.json'))
bad = 0
for k, e in enumerate(kf):
    if e['status'] != 'fixed' or (only and e['property'] != only):
        continue
    work = tempfile.mkdtemp(prefix='regval-')
    try:
        subprocess.check_call(['rsync', '-a', '--exclude', '.git', '--exclude', '__pycache__', '/repo/', work + '/repo/'])
        ok = True
        for commit in e['commit'].split():
            diff = subprocess.check_output(['git', '-C', '/repo', 'show', commit, '--', 'xtuml', 'bridgepoint'])
            p = subprocess.run(['patch', '-R', '-p1', '-s', '-d', work + '/repo'], input=diff)
            ok = ok and p.returncode == 0
        case = work + '/case.json'
        json.dump({'case': e['regression']}, open(case, 'w'))
        env = dict(os.environ, VERIF_REPO=work + '/repo', VERIF_OUT=work + '/out')
        r0 = subprocess.run(['./check', e['property'], '--replay', case], env=env, capture_output=True, text=True, timeout=900)
        env2 = dict(os.environ, VERIF_OUT=work + '/out2')
        r1 = subprocess.run(['./check', e['property'], '--replay', case], env=env2, capture_output=True, text=True, timeout=900)
        verdict = 'ok' if (r0.returncode == 1 and r1.returncode == 0) else 'STALE'
        if verdict != 'ok':
            bad += 1
        print('%-4s %-8s %-5s reverted-tree exit=%d current-tree exit=%d patch-reversed=%s  %s' % (
            e['property'], e['commit'][:7], verdict, r0.returncode, r1.returncode, ok, e['bucket']))
        sys.stdout.flush()
    finally:
        shutil.rmtree(work, ignore_errors=True)
sys.exit(1 if bad else 0)
