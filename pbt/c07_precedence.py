"""C07 - OAL parsing follows the precedence table and ignores layout."""
from hypothesis import strategies as st

import bridgepoint.oal as oal
from . import oalsyn
from .oalgen import N, Printer, render, compare, body, BINOPS, UNOPS, level
from .core import Violation, hyp_run, loop_run, Res, exc_bucket, TimeLimit

PROPERTY = 'C07'
RULE = ('(a) exhaustive: every expression tree of depth <= 3 (operand = depth 1) over all 16 binary and 6 unary operators, '
        'written with exactly the parentheses the documented precedence / associativity table requires (computed by the '
        'harness), parsed and compared node by node with the generated tree; one operand kind in the quick tier, three '
        'in the thorough tier; every operand kind under every operator in every argument position; (b) Hypothesis trees '
        'of depth 4-6 with redundant parentheses; (c) Hypothesis bodies over every statement production (event '
        'generate/create forms, bridge/transform/send, port signals, selects, relates, control flow) printed with a '
        'drawn layout (spaces, tabs, CR, newlines, block and line comments, glued tokens), drawn keyword case and drawn '
        'optional words (assign, loop, then, instances of, empty statements). The checks run on parser tables '
        'regenerated from the grammar in the working tree. non-trivial = expression with >= 2 adjacent operators, or '
        'body with an omitted optional word and a comment or newline inside a statement; distinct = by source text.')
ASSUMPTIONS = [
    'keyword-valued fields (operators and/or/not..., cardinality, boolean literals, self) are compared case-insensitively',
    'no comment is placed inside the single lexical token "end if/for/while"',
]


def parse(text, case):
    try:
        with TimeLimit(20):
            return oal.parse(text)
    except TimeLimit.Expired:
        raise Violation('parse-does-not-terminate', case, 'no result within 20 s')


def check_batch(exprs, case_of, res, nontrivial=True):
    """exprs: list of trees; parsed as 'v = <e>;' statements in one body."""
    stmts = [N('AssignmentNode', variable_access=N('VariableAccessNode', variable_name='v'), expression=e, _lead=None)
             for e in exprs]
    p = Printer(choose=lambda key, options: False if key[0] == 'assign' else options[0])
    p.block(body(stmts)['block'])
    text, _pos = render(p.toks, [' '])
    try:
        root = parse(text, {'text': text})
        kids = root.block.statement_list.children
        if len(kids) != len(stmts):
            raise oal.ParseException('statement count')
    except oal.ParseException:
        if len(exprs) == 1:
            raise Violation('valid-expression-rejected:' + shape(exprs[0]), case_of(exprs[0], text), 'ParseException for %r' % text)
        for e in exprs:
            check_batch([e], case_of, res, nontrivial)
        return
    except Violation:
        raise
    except Exception as e:
        raise Violation('parse-exception:' + exc_bucket(e), {'text': text}, repr(e))
    for e, k in zip(exprs, kids):
        d = compare(k.expression, e, 'expr')
        single = Printer(choose=lambda key, options: options[0])
        single.expr(e)
        etext, _ = render(single.toks, [' '])
        if d:
            raise Violation('wrong-grouping:' + shape(e), case_of(e, etext), '%r parsed differently: %s' % (etext, d))
        res.case(etext, nontrivial and adjacent_ops(e), sample=etext if adjacent_ops(e) else None, classes=('expression',))


def adjacent_ops(e):
    if e['t'] == 'BinaryOperationNode':
        return e['left']['t'] in ('BinaryOperationNode', 'UnaryOperationNode') or \
            e['right']['t'] in ('BinaryOperationNode', 'UnaryOperationNode')
    if e['t'] == 'UnaryOperationNode':
        return e['operand']['t'] in ('BinaryOperationNode', 'UnaryOperationNode')
    return False


def shape(e):
    """Root-cause fingerprint: the operator pair at the top of the tree."""
    if e['t'] == 'BinaryOperationNode':
        inner = []
        for side in ('left', 'right'):
            c = e[side]
            if c['t'] == 'BinaryOperationNode':
                inner.append('%s:L%d' % (side, level(c)))
            elif c['t'] == 'UnaryOperationNode':
                inner.append('%s:unary' % side)
        return 'L%d(%s)' % (level(e), ','.join(inner))
    if e['t'] == 'UnaryOperationNode':
        c = e['operand']
        return 'unary(%s)' % ('L%d' % level(c) if c['t'] == 'BinaryOperationNode' else c['t'])
    return e['t']


LEAF_X = N('VariableAccessNode', variable_name='x')
LEAVES3 = [LEAF_X, N('IntegerNode', value='1'),
           N('FunctionInvocationNode', action_name='f', parameter_list=N('ParameterListNode', children=[]))]
OPERANDS = [
    N('IntegerNode', value='42'), N('RealNode', value='3.14'), N('RealNode', value='.5'), N('RealNode', value='1e5'),
    N('StringNode', value='"a b"'), N('BooleanNode', value='true'), N('VariableAccessNode', variable_name='y'),
    N('VariableAccessNode', variable_name='many'),
    N('FieldAccessNode', handle=N('SelfAccessNode'), name='attr'),
    N('FieldAccessNode', handle=N('FieldAccessNode', handle=N('VariableAccessNode', variable_name='a'), name='b'), name='not'),
    N('IndexAccessNode', handle=N('VariableAccessNode', variable_name='arr'),
      expression=N('BinaryOperationNode', left=N('VariableAccessNode', variable_name='i'), operator='+', right=N('IntegerNode', value='1'))),
    N('ParamAccessNode', variable_name='p', _kw='param'), N('ParamAccessNode', variable_name='q', _kw='rcvd_evt'),
    N('SelfAccessNode'), N('SelectedAccessNode'),
    N('ImplicitInvocationNode', namespace='LOG', action_name='f', parameter_list=N('ParameterListNode', children=[
        N('ParameterNode', name='a', expression=N('IntegerNode', value='1')),
        N('ParameterNode', name='b', expression=N('BinaryOperationNode', left=N('VariableAccessNode', variable_name='x'),
                                                  operator='or', right=N('BooleanNode', value='false')))])),
    N('FunctionInvocationNode', action_name='g', parameter_list=N('ParameterListNode', children=[])),
    N('InstanceInvocationNode', handle=N('VariableAccessNode', variable_name='inst'), action_name='op',
      parameter_list=N('ParameterListNode', children=[N('ParameterNode', name='v', expression=N('UnaryOperationNode', operator='-', operand=N('IntegerNode', value='2')))])),
    N('EnumOrNamedConstantNode', namespace='Color', name='Red'),
]


def confusable(text):
    """a DIFFERENT program that a lossy normalisation (collapsing whitespace) would map to the same text: every blank
    inside a string literal doubled; None when the text has no such literal"""
    import re
    out = re.sub(r'"[^"\n]*"', lambda m: m.group(0).replace(' ', '  '), text)
    return out if out != text else None


def run_body_case(case, res=None):
    b = case['body']
    lay = case['layout']
    p = Printer(choose=oalsyn.chooser(lay['choices']), case=oalsyn.caser(lay['case']))
    p.block(b['block'])
    text, _pos = render(p.toks, lay['gaps'], lay['end_gaps'])
    info = {'body': b, 'layout': lay, 'text': text}
    near = confusable(text)
    if near is not None and '//' not in text and '/*' not in text:
        # parsing is a function of the text alone: a near-identical text parsed just before must not matter
        try:
            oal.parse(near)
        except Exception:
            pass
    try:
        root = parse(text, info)
    except oal.ParseException as e:
        raise Violation('valid-body-rejected:' + first_stmt(b), info, 'ParseException %s for %r' % (e, text))
    except Violation:
        raise
    except Exception as e:
        raise Violation('parse-exception:' + exc_bucket(e), info, repr(e))
    d = compare(root, b, 'body')
    if d:
        raise Violation('tree-differs:' + d.split(':')[0].split('.')[-1].split('[')[0] + ':' + first_stmt(b), info,
                        '%s\n--- text ---\n%s' % (d, text))
    if res is not None:
        interesting = ('\n' in text.strip() or '/*' in text or '//' in text) and len(b['block']['statement_list']['children']) > 0
        kinds = sorted(set(s['t'] for s in all_statements(b)))
        res.case(text, interesting, sample=text if interesting and len(text) < 700 else None, classes=kinds)


def all_statements(n):
    if isinstance(n, dict):
        from .oalgen import STATEMENT_NODES
        if n.get('t') in STATEMENT_NODES:
            yield n
        for v in n.values():
            for x in all_statements(v):
                yield x
    elif isinstance(n, list):
        for v in n:
            for x in all_statements(v):
                yield x


def first_stmt(b):
    ks = b['block']['statement_list']['children']
    return ks[0]['t'] if len(ks) == 1 else 'multi'


def deep_body(case, res=None):
    e = case['expr']
    lay = case['layout']
    p = Printer(choose=oalsyn.chooser(lay['choices']), case=oalsyn.caser(lay['case']))
    s = N('ReturnNode', expression=e)
    p.block(body([s])['block'])
    text, _ = render(p.toks, lay['gaps'], lay['end_gaps'])
    try:
        root = parse(text, dict(case, text=text))
    except oal.ParseException as ex:
        raise Violation('valid-expression-rejected:' + shape(e), dict(case, text=text), 'ParseException %s for %r' % (ex, text))
    except Violation:
        raise
    except Exception as ex:
        raise Violation('parse-exception:' + exc_bucket(ex), dict(case, text=text), repr(ex))
    kids = root.block.statement_list.children
    d = compare(kids[0].expression, e, 'expr') if len(kids) == 1 else 'statement count %d' % len(kids)
    if d:
        raise Violation('wrong-grouping:' + shape(e), dict(case, text=text), '%s\n%s' % (d, text))
    if res is not None:
        res.case(text, adjacent_ops(e), sample=text if len(text) < 400 else None, classes=('deep-expression',))



def selftest():
    # the documented table, hand-checked samples
    def txt(e):
        p = Printer(choose=lambda k, o: o[0])
        p.expr(e)
        return render(p.toks, [' '])[0].strip()
    x = LEAF_X
    B = lambda l, o, r: N('BinaryOperationNode', left=l, operator=o, right=r)
    U = lambda o, e: N('UnaryOperationNode', operator=o, operand=e)
    assert txt(B(B(x, '-', x), '-', x)) == 'x - x - x'
    assert txt(B(x, '-', B(x, '-', x))) == 'x - ( x - x )'
    assert txt(B(B(x, 'or', x), 'and', x)) == '( x or x ) and x'
    assert txt(B(x, '*', B(x, '%', x))) == 'x * x % x'
    assert txt(B(B(x, '<', x), '==', x)) == '( x < x ) == x'
    assert txt(U('not', B(x, '==', x))) == 'not ( x == x )'
    assert txt(B(U('-', x), '*', x)) == '- x * x'
    assert len(list(oalsyn.trees(3, [x]))) == 8603


def run(ctx):
    res = Res()
    leaves = [LEAF_X] if ctx.quick else LEAVES3

    def case_of(e, text):
        return {'expr': e, 'expr_text': text}

    def batches():
        buf = []
        idx = 0
        for t in oalsyn.trees(3, leaves):
            idx += 1
            if idx % ctx.nshards != ctx.shard:
                continue
            buf.append(t)
            if len(buf) == 40:
                yield buf
                buf = []
        if buf:
            yield buf
        # every operand kind under every operator in every argument position
        pair = []
        for o in OPERANDS:
            for op in BINOPS:
                pair.append(N('BinaryOperationNode', left=o, operator=op, right=LEAF_X))
                pair.append(N('BinaryOperationNode', left=LEAF_X, operator=op, right=o))
                pair.append(N('BinaryOperationNode', left=o, operator=op, right=o))
            for op in UNOPS:
                pair.append(N('UnaryOperationNode', operator=op, operand=o))
        if ctx.shard == 0:
            for i in range(0, len(pair), 40):
                yield pair[i:i + 40]

    def batch_body(b):
        check_batch(b, case_of, res)

    loop_run(ctx, res, batches(), batch_body)
    res.exhaustive_parts.append('all expression trees of depth <= 3 over 16 binary + 6 unary operators with %d operand kind(s): %d'
                                % (len(leaves), {1: 8603, 3: 436593}[len(leaves)]))
    res.exhaustive_parts.append('%d operand kinds x every operator x every argument position' % len(OPERANDS))

    hyp_run(ctx, res, st.fixed_dictionaries({'expr': oalsyn.expressions(5), 'layout': oalsyn.layouts()}), lambda c: deep_body(c, res),
            ctx.pick(1500, 8000), label='deep')
    hyp_run(ctx, res, st.fixed_dictionaries({'body': oalsyn.bodies(), 'layout': oalsyn.layouts()}),
            lambda c: run_body_case(c, res), ctx.pick(4000, 20000), label='bodies')
    return res


def replay(case):
    if 'body' in case:
        run_body_case(case)
    elif 'layout' in case:
        deep_body(case)
    else:
        check_batch([case['expr']], lambda e, tx: case, Res())
