import os, runpy, sys
tree = os.environ['WITH_TREE']
sys.meta_path[:] = [f for f in sys.meta_path if 'editable' not in (getattr(f, '__module__', '') or '') + type(f).__name__.lower()
                    and 'editable' not in getattr(f, '__name__', '').lower()]
sys.path[:] = [tree] + [p for p in sys.path if os.path.realpath(p or '.') != '/repo']
import xtuml, bridgepoint
assert xtuml.__file__.startswith(tree), xtuml.__file__
assert bridgepoint.__file__.startswith(tree), bridgepoint.__file__
if sys.argv[1] == '--pytest':
    import pytest
    sys.exit(pytest.main(sys.argv[2:]))
script = sys.argv[1]
sys.argv = sys.argv[1:]
sys.path.insert(1, os.path.dirname(script))
runpy.run_path(script, run_name='__main__')
