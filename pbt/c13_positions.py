"""C13 - OAL parsing is total and its source positions are exact."""
import re

from hypothesis import strategies as st

import bridgepoint.oal as oal
from . import oalsyn
from .oalgen import (N, Printer, render, compare, body, walk_pairs, node_span, EXPRESSION_NODES, STATEMENT_NODES)
from .core import Violation, hyp_run, loop_run, Res, exc_bucket, TimeLimit
from . import fuzz

PROPERTY = 'C13'
RULE = ('totality: arbitrary unicode text, token soup over the OAL token alphabet, single-edit mutants (delete / duplicate / '
        'swap / replace a token, truncate, insert a character) of generated programs, and pumped inputs (comment '
        'openers followed by 2^k newlines / stars / slashes, quote runs, parenthesis runs, digit/./e runs, "end" + '
        'whitespace): parse must return a BodyNode or raise ParseException within a 10 s alarm, and in every ACCEPTED text each '
        'statement / expression node must name (by line and column) a stretch of that text running from a token character to '
        'a token character, record exactly that stretch, and lie inside its enclosing node. positions: generated '
        'bodies over every statement production printed with a drawn layout (multi-line expressions, tabs, CR, block '
        'and line comments, newlines inside "end if/for/while", glued tokens, redundant parentheses): every statement '
        'and expression node must carry the line/column of its first token, the line/column of the last character of '
        'its last token and the exact source substring, all computed by the printer from token offsets. '
        'coverage-guided: an atheris / libFuzzer campaign on oal.parse (grammar actions, PLY driver and lexer callbacks instrumented; '
        'token-level custom mutator over the soup alphabet mixed with byte mutations; seed corpus of generated programs, one thorough shard in four starts empty) with the '
        'totality + accepted-text oracle inside the target. non-trivial (positions) = text spanning >= 3 lines with a multi-line expression and a comment containing a '
        'newline; (totality) = input on which >= 3 tokens are recognisable; distinct = by text.')
ASSUMPTIONS = [
    'a parenthesised expression spans its parentheses (the grammar re-positions the node on the grouped production)',
    'blocks, lists, event specifications, elif/else clauses and parameters are not position-checked',
    'for a last token that itself spans lines ("end<newline>if") end_line may be either of its lines',
    'bounded time = 10 s alarm per parse on inputs <= 64 kB',
]

SOUP = ['select', 'any', 'many', 'one', 'from', 'instances', 'of', 'where', 'related', 'by', 'if', 'elif', 'else', 'end if',
        'end\nif', 'while', 'end while', 'for', 'each', 'in', 'end for', 'END', 'end', 'loop', 'then', 'x', 'y', 'self',
        'selected', 'param', 'rcvd_evt', 'A', 'R1', '->', '[', ']', '(', ')', '.', ',', ';', ':', '::', '=', '==', '!=', '<',
        '<=', '>', '>=', '+', '-', '*', '/', '%', '|', '&', '^', '?', 'not', 'empty', 'not_empty', 'cardinality', 'and', 'or',
        'true', 'false', '1', '42', '1.5', '.5', '1.', '1e5', '"s"', '""', '"', "'p'", "'", '/*', '*/', '/* c */', '//', '// c\n',
        '\n', '\t', 'create', 'object', 'instance', 'delete', 'relate', 'unrelate', 'to', 'across', 'using', 'generate',
        'event', 'class', 'creator', 'assigner', 'bridge', 'transform', 'send', 'return', 'break', 'continue', 'control',
        'stop', 'assign', 'ns::f', 'ns::', '$', '#', '\\', '\x00', 'é', '{', '}', '!']

TOKEN_RE = re.compile(r'[A-Za-z_][A-Za-z0-9_]*|\d+|"[^"\n]*"|\S')


def parse_total(text, case):
    """-> ('ok', tree) | ('rejected', None); raises Violation on anything else."""
    try:
        with TimeLimit(10):
            root = oal.parse(text)
    except TimeLimit.Expired:
        raise Violation('parse-does-not-terminate', case, 'no result within 10 s for %d characters' % len(text))
    except oal.ParseException:
        return 'rejected', None
    except RecursionError as e:
        raise Violation('parse-undocumented-exception:RecursionError', case, repr(e)[:200])
    except Exception as e:
        raise Violation('parse-undocumented-exception:' + exc_bucket(e), case, repr(e))
    if not isinstance(root, oal.BodyNode):
        raise Violation('parse-returned-non-tree', case, 'parse returned %r' % (root,))
    return 'ok', root


def totality_body(res):
    def body_(case):
        text = case['text']
        out, root = parse_total(text, case)
        checked = 0
        if out == 'ok':
            checked = self_consistent(root, text, case)
        nt = len(TOKEN_RE.findall(text)) >= 3
        res.case(text, nt, sample={'kind': case['kind'], 'text': text[:300], 'outcome': out} if nt else None,
                 classes=(case['kind'], case['kind'] + '-' + out) + (('accepted-with-positions',) if checked else ()))
    return body_


def subnodes(node):
    for k, v in sorted(vars(node).items()):
        if k == 'position':
            continue
        if isinstance(v, oal.Node):
            yield v
        elif isinstance(v, (list, tuple)):
            for x in v:
                if isinstance(x, oal.Node):
                    yield x


END_TOKEN = re.compile(r"(?i)(end\s+(if|for|while)|'[^']*')\Z")     # last tokens that may themselves span lines


def self_consistent(root, text, case):
    """Positions of ANY accepted text (not only of generated programs): every statement / expression node of the returned
    tree names, by line and column, a stretch of the given text that begins and ends with a character of a token, and
    records exactly that stretch; a node lies inside the node that contains it. -> number of nodes checked"""
    starts = [0]
    for i, ch in enumerate(text):
        if ch == '\n':
            starts.append(i + 1)

    def offset(line, col):
        if not (1 <= line <= len(starts)):
            return None
        return starts[line - 1] + col - 1

    n = 0
    stack = [(root, None)]
    while stack:
        node, outer = stack.pop()
        t = type(node).__name__
        span = outer
        if t in EXPRESSION_NODES or t in STATEMENT_NODES:
            ps = node.position
            if ps is None:
                raise Violation('position-missing:' + t, case, '%s of an accepted text has no position' % t)
            cs = node.character_stream
            so = offset(ps.start_line, ps.start_column)
            where = '%s at %r:%r-%r:%r stream %r' % (t, ps.start_line, ps.start_column, ps.end_line, ps.end_column, (cs or '')[:60])
            if not cs or cs[0].isspace() or cs[-1].isspace():
                raise Violation('accepted-text:stream-not-token-to-token', case, where)
            if so is None or text[so:so + len(cs)] != cs:
                raise Violation('accepted-text:start-position-names-other-text', case,
                                '%s; the text there is %r' % (where, text[so:so + len(cs)][:60] if so is not None else None))
            eo = so + len(cs) - 1
            multi = END_TOKEN.search(cs) and '\n' in END_TOKEN.search(cs).group(0)
            want_line = text.count('\n', 0, eo) + 1
            want_col = eo - starts[want_line - 1] + 1
            if ps.end_column != want_col or (ps.end_line != want_line and not multi):
                raise Violation('accepted-text:end-position-wrong', case, '%s; its last character is at %d:%d' % (where, want_line, want_col))
            if outer is not None and not (outer[0] <= so and eo <= outer[1]):
                raise Violation('accepted-text:node-outside-its-parent', case, '%s lies outside the enclosing node %r' % (where, outer))
            span = (so, eo)
            n += 1
        for sub in subnodes(node):
            stack.append((sub, span))
    return n


def generated_text(ints, lay):
    b = oalsyn.g_body(oalsyn.Tape(ints))
    p = Printer(choose=oalsyn.chooser(lay['choices']), case=oalsyn.caser(lay['case']))
    p.block(b['block'])
    return render(p.toks, lay['gaps'], lay['end_gaps'])[0]


@st.composite
def mutants(draw):
    text = generated_text(draw(oalsyn.tapes(300, 30)), draw(oalsyn.layouts()))
    spans = [m.span() for m in TOKEN_RE.finditer(text)]
    if not spans:
        return text
    kind = draw(st.sampled_from(['delete', 'duplicate', 'swap', 'replace', 'truncate', 'insert']))
    a, b = spans[draw(st.integers(0, len(spans) - 1))]
    if kind == 'delete':
        return text[:a] + text[b:]
    if kind == 'duplicate':
        return text[:b] + ' ' + text[a:b] + text[b:]
    if kind == 'swap':
        c, d = spans[draw(st.integers(0, len(spans) - 1))]
        if c < a:
            a, b, c, d = c, d, a, b
        if b > c:
            return text
        return text[:a] + text[c:d] + text[b:c] + text[a:b] + text[d:]
    if kind == 'replace':
        return text[:a] + draw(st.sampled_from(SOUP)) + text[b:]
    if kind == 'truncate':
        return text[:draw(st.integers(0, len(text)))]
    return text[:a] + draw(st.sampled_from(['"', "'", '/*', '*/', '//', '(', ')', '\n', '\\', '\x00', ';', 'end '])) + text[a:]


PUMPS = [('/*', '\n', ''), ('/*', '*', ''), ('/*', '/', ''), ('/*', '\r\n', ''), ('/*', '* ', ''), ('/*', '*\n', '*'),
         ('/*', 'a', ''), ('/*', '\n*', ''), ('/*', '**/', ' x'), ('//', 'a', ''), ('//', '/', ''), ('"', 'a', ''),
         ('"', '\\', ''), ('', '"', ''), ("'", 'a', ''), ('', "'", ''), ('x = ', '(', ';'), ('x = ', '(', '1;'),
         ('x = ', ')', ';'), ('x = ', '1', '.'), ('x = ', '1', 'e'), ('x = 1.', '5', 'e+'), ('x = 1e', '5', ';'),
         ('x = ', '.', ';'), ('end', ' ', ''), ('end', '\n', 'x'), ('end', '\t', 'if'), ('x = ', 'a.', 'b;'),
         ('x = ', 'a::', 'b;'), ('x = ', '-', '1;'), ('x = ', 'not ', 'y;'), ('x = 1', ' + 1', ';'), ('', 'x = 1;', ''),
         ('x = y', '[1]', ';'), ('select any x from instances of A where ', '(', 'selected.y)'), ('', ';', ''),
         ('x = a', '->B[R1]', ';'), ('', '\x00', ''), ('x = "', '"', ';')]


def pump_cases(ctx):
    ks = (4, 6, 8, 11) if ctx.quick else (2, 4, 5, 6, 7, 8, 10, 12, 14)
    for pre, unit, suf in PUMPS:
        for k in ks:
            n = 2 ** k
            if len(unit) * n > 66000:
                continue
            # deep nesting legitimately needs parser stack; keep recursion-prone pumps below the interpreter limit
            if unit in ('(', 'not ', '-') and n > 256:
                continue
            yield {'kind': 'pumped', 'text': pre + unit * n + suf, 'pump': [pre, unit, suf, k]}


# -- positions ---------------------------------------------------------------------------------------------------

def positions_case(case, res=None):
    b = oalsyn.g_body(oalsyn.Tape(case['tape']))
    lay = case['layout']
    p = Printer(choose=oalsyn.chooser(lay['choices']), case=oalsyn.caser(lay['case']))
    p.block(b['block'])
    text, pos = render(p.toks, lay['gaps'], lay['end_gaps'])
    info = dict(case, text=text)
    # positions must not depend on what was parsed before: a trivial accepted text, then a drawn (usually rejected)
    # text spanning several lines, then the text under test
    parse_total('x = 1;', info)
    if case.get('poison') is not None:
        parse_total(case['poison'], info)
    out, root = parse_total(text, info)
    if out != 'ok':
        raise Violation('valid-body-rejected', info, 'ParseException for generated text %r' % text)
    d = compare(root, b, 'body')
    if d:
        raise Violation('tree-differs', info, d)       # C07's subject; positions cannot be compared then
    lines = text.split('\n')
    multi_expr = False
    for pn, an in walk_pairs(root, b):
        t = an['t']
        if t not in EXPRESSION_NODES and t not in STATEMENT_NODES:
            continue
        sl, sc, el, ec, so, eo, end_multiline = node_span(p, pos, an)
        ps = pn.position
        kind = 'statement' if t in STATEMENT_NODES else 'expression'
        if ps is None:
            raise Violation('position-missing:' + t, info, '%s has no position' % t)
        where = '%s %r' % (t, text[so:eo][:60])
        if (ps.start_line, ps.start_column) != (sl, sc):
            raise Violation('start-position-wrong:%s:%s' % (kind, cause(text, so)), info,
                            '%s starts at %d:%d, recorded %d:%d' % (where, sl, sc, ps.start_line, ps.start_column))
        if ps.end_column != ec or (ps.end_line != el and not (end_multiline and ps.end_line in (el, pos_start_line(p, pos, an)))):
            raise Violation('end-position-wrong:%s:%s' % (kind, cause(text, so)), info,
                            '%s ends at %d:%d, recorded %d:%d' % (where, el, ec, ps.end_line, ps.end_column))
        if pn.character_stream != text[so:eo]:
            raise Violation('character-stream-wrong:%s' % kind, info,
                            '%s: recorded %r, source %r' % (t, pn.character_stream, text[so:eo]))
        if kind == 'expression' and el > sl:
            multi_expr = True
    if res is not None:
        nt = len(lines) >= 3 and multi_expr and bool(re.search(r'/\*[^/]*\n', text))
        res.case(text, nt, sample=text if nt and len(text) < 600 else None,
                 classes=('positions', 'lines>=3' if len(lines) >= 3 else 'lines<3') +
                 (('end-token-with-newline',) if re.search(r'(?i)end[ \t\r]*\n\s*(if|for|while)', text) else ()))


def pos_start_line(p, pos, node):
    f, l = p.spans[id(node)]
    return pos[l][1]


def cause(text, offset):
    """What precedes the node: names the layout feature that most likely shifted the position."""
    before = text[:offset]
    if re.search(r'(?i)end[ \t\r]*\n\s*(if|for|while)', before):
        return 'after-end-token-with-newline'
    if '/*' in before and '\n' in before[before.find('/*'):]:
        return 'after-multiline-comment'
    if '//' in before:
        return 'after-line-comment'
    if '\t' in before:
        return 'after-tab'
    if '\r' in before:
        return 'after-cr'
    if '\n' in before:
        return 'after-newline'
    return 'first-line'


def selftest():
    # printer positions on hand-laid text
    b = body([N('AssignmentNode', variable_access=N('VariableAccessNode', variable_name='x'),
                expression=N('BinaryOperationNode', left=N('IntegerNode', value='1'), operator='+',
                             right=N('IntegerNode', value='22')))])
    p = Printer(choose=lambda k, o: False if k[0] == 'assign' else o[0])
    p.block(b['block'])
    text, pos = render(p.toks, ['', ' ', ' ', '\n  ', ' ', ''])
    assert text == 'x = 1\n  + 22;', repr(text)
    st_ = b['block']['statement_list']['children'][0]
    assert node_span(p, pos, st_)[:6] == (1, 1, 2, 6, 0, 12), node_span(p, pos, st_)
    assert node_span(p, pos, st_['expression'])[:4] == (1, 5, 2, 6)
    assert node_span(p, pos, st_['expression']['right'])[:4] == (2, 5, 2, 6)


def run(ctx):
    res = Res()
    tb = totality_body(res)

    def wrap(kind):
        return lambda t: {'kind': kind, 'text': t}

    if ctx.shard == 0:
        loop_run(ctx, res, pump_cases(ctx), tb)
    hyp_run(ctx, res, st.text(max_size=200).map(wrap('text')), tb, ctx.pick(600, 4000), label='text')
    hyp_run(ctx, res, st.lists(st.sampled_from(SOUP), min_size=1, max_size=40).map(lambda ts: ' '.join(ts)).map(wrap('soup')),
            tb, ctx.pick(1500, 10000), label='soup')
    hyp_run(ctx, res, mutants().map(wrap('mutant')), tb, ctx.pick(1500, 10000), label='mutants')
    poison = st.one_of(st.none(), st.lists(st.sampled_from(SOUP + ['\n', '\n', ';\n']), min_size=1, max_size=15).map(lambda ts: ' '.join(ts)),
                       st.sampled_from(['x = 1;\ny = 2;\nz = 3', 'if (true)\n x = 1;\n', 'x = (1 +\n\n 2;', '/* a\nb */ x = ;', 'x = 1;\n\n\n']))
    hyp_run(ctx, res, st.fixed_dictionaries({'tape': oalsyn.tapes(400, 40), 'layout': oalsyn.layouts(), 'poison': poison}),
            lambda c: positions_case(c, res), ctx.pick(3000, 20000), label='positions')
    # coverage-guided campaign over the grammar actions (same oracle as the totality part, inside the fuzz target); the
    # thorough tier also starts one shard in four from an empty corpus
    fuzz.fuzz_run(ctx, res, 'oal', ctx.pick(6000, 150000), 'oal', empty_corpus=(not ctx.quick and ctx.shard % 4 == 3))
    return res


MIN_FRACTIONS = {'positions': 0.2, 'mutant-rejected': 0.05, 'mutant-ok': 0.02}


def replay(case):
    if 'tape' in case:
        positions_case(case)
    else:
        out, root = parse_total(case['text'], case)
        if out == 'ok':
            self_consistent(root, case['text'], case)
