"""C15 - callable model elements behave as their OAL bodies specify."""
import copy

from hypothesis import strategies as st

import xtuml
from bridgepoint import ooaofooa
from . import oalprog, oalsyn, bpmodel, c04_interpret, c14_component
from .oalgen import N, block, Printer, render
from .oalprog import Gen, Env
from .oalsyn import Tape
from .oalref import Evaluator, World, Discard
from .shadow import Rec
from .core import Violation, hyp_run, Res, exc_bucket, TimeLimit

PROPERTY = 'C15'
RULE = ('Hypothesis: a BridgePoint component synthesised by the harness (the nine-class schema of C04 as O_OBJ/R_REL rows, '
        'rows in a drawn order) holding a generated call graph: 2-3 functions, class-based and instance-based operations, '
        'a user external entity with bridges, a derived attribute, an enumeration (row order != modelled order) and '
        'constants of the four core types. Bodies are typed OAL programs (pbt/oalprog.py) extended with invocations in '
        'operands, arguments, where clauses and conditions, every return form (value, bare return, falling off the end, '
        'return inside a loop), recursion and mutual recursion on a decreasing integer parameter, and the same local '
        'variable names in every body. Entry points are invoked from Python (Domain.find_symbol(name)(**kw), '
        'Class.op(**kw), inst.op(**kw), EE.bridge(**kw), inst.derived) and from OAL. Oracle: the reference evaluator with '
        'call semantics (fresh scope per invocation, parameters by name, self = receiver, value of the executed return). '
        'Derived attributes are read twice around a mutation; enumerators = index in modelled order; constants = modelled '
        'values. non-trivial = call depth >= 2 with shared variable names, or recursion depth >= 2, or a bare return; '
        'distinct = by case.')
ASSUMPTIONS = [
    'only error-free call graphs are compared (reference discards are counted)',
    'invocations with side effects are not placed inside and/or operands',
    'fidelity of the synthesised ooaofooa rows is assumed (validated through C14 on the shipped model)',
]

TY_BP = {'int': 'integer', 'str': 'string', 'bool': 'boolean', 'real': 'real', None: 'void'}
ENUM = ['Red', 'Green', 'Blue', 'None', 'Alpha']     # 'None' is renamed None_ by the library (Python keyword)
CONSTS = [('MAX_N', 'integer', '7'), ('GREETING', 'string', 'hello'), ('ENABLED', 'boolean', 'true'), ('RATIO', 'real', '2.5'),
          # the zero of every type is a value like any other
          ('ZERO', 'integer', '0'), ('NOTHING', 'string', ''), ('DISABLED', 'boolean', 'false'), ('NIL', 'real', '0.0')]


def base_diagram():
    """the C04 schema as an abstract BridgePoint diagram inside component Comp"""
    S = oalprog.SCHEMA
    D = {'packages': [{'name': 'Top', 'parent': None}, {'name': 'Classes', 'parent': ['comp', 0]},
                      {'name': 'Types', 'parent': ['comp', 0]}],
         'components': [{'name': 'Comp', 'parent': ['pkg', 0]}], 'types': [], 'classes': [], 'rels': [],
         'functions': [], 'ees': [], 'constants': []}
    ix = {}
    refs = {}
    for a in S['assocs']:
        for k in a['src_keys']:
            refs[(a['src'], k)] = True
    for ci, c in enumerate(S['classes']):
        ix[c['name']] = ci
        attrs = []
        for n, t in c['attrs']:
            if (c['name'], n) in refs:
                attrs.append({'name': n, 'ref': True})
            else:
                attrs.append({'name': n, 'type': t.lower()})
        ids = [['Id']] if any(n == 'Id' for n, _ in c['attrs']) else [[n for n, _ in c['attrs'] if (c['name'], n) in refs]]
        D['classes'].append({'name': c['name'] + '_class', 'kl': c['name'], 'numb': ci + 1, 'parent': ['pkg', 1],
                             'attrs': attrs, 'ids': ids, 'ops': []})
    A = S['assocs']
    D['rels'] = [
        {'numb': 1, 'kind': 'simple', 'part': ix['A'], 'form': ix['B'], 'oid': 0, 'refs': ['A_Id'], 'part_mult': False,
         'part_cond': True, 'part_phrase': '', 'form_mult': True, 'form_cond': True, 'form_phrase': ''},
        {'numb': 2, 'kind': 'simple', 'part': ix['A'], 'form': ix['C'], 'oid': 0, 'refs': ['A_Id'], 'part_mult': False,
         'part_cond': True, 'part_phrase': '', 'form_mult': False, 'form_cond': True, 'form_phrase': ''},
        {'numb': 3, 'kind': 'simple', 'part': ix['P'], 'form': ix['P'], 'oid': 0, 'refs': ['Prev_Id'], 'part_mult': False,
         'part_cond': True, 'part_phrase': 'prev', 'form_mult': False, 'form_cond': True, 'form_phrase': 'next'},
        {'numb': 4, 'kind': 'linked', 'one': ix['A'], 'oth': ix['D'], 'link': ix['L'], 'one_oid': 0, 'oth_oid': 0,
         'one_refs': ['A_Id'], 'oth_refs': ['D_Id'], 'link_mult': False, 'one_mult': True, 'one_cond': True, 'one_phrase': '',
         'oth_mult': True, 'oth_cond': True, 'oth_phrase': ''},
        {'numb': 5, 'kind': 'subsuper', 'super': ix['S'], 'oid': 0, 'subs': [{'cls': ix['T1'], 'refs': ['Id']}, {'cls': ix['T2'], 'refs': ['Id']}]},
    ]
    return D, ix


class Callable(object):
    def __init__(self, kind, name, params, ret, cls=None):
        self.kind = kind          # function | classop | instop | bridge | derived
        self.name = name
        self.params = params      # [(name, ty)]
        # kind:name, and kind:home.name for the elements that are named like an element of another home
        self.key = '%s:%s' % (kind, name) if (kind, name, cls) not in (('classop', 'cop', 'B'), ('bridge', 'b0', 'ZEE')) \
            else '%s:%s.%s' % (kind, cls, name)
        self.ret = ret            # OAL type or None
        self.cls = cls            # class KL for operations / derived, EE key letters for bridges
        self.body = None          # AST
        self.text = None


class CallHooks(object):
    """generator hook: invocation expressions / statements of already defined callables"""

    def __init__(self, available):
        self.available = available

    def invocation(self, gen, env, c, depth):
        args = []
        for pn, pt in c.params:
            if gen.params.get(pn) == pt and pt in ('int', 'str'):
                # the callee has a parameter named like one of the caller's: it gets another value than the caller's own
                # (which the caller reads again afterwards) - no draw, so the tape means what it meant before
                e = N('BinaryOperationNode', left=N('ParamAccessNode', variable_name=pn, _kw='param'), operator='+',
                      right=N('IntegerNode', value='1') if pt == 'int' else N('StringNode', value='"+"'))
                gen.features.add('same-named-parameter-passed-on')
            else:
                e = gen.expr(env, pt, max(depth - 1, 0))
            args.append(N('ParameterNode', name=pn, expression=e))
        pl = N('ParameterListNode', children=args)
        if c.kind == 'function':
            return N('FunctionInvocationNode', action_name=c.name, parameter_list=pl)
        if c.kind in ('classop', 'bridge'):
            return N('ImplicitInvocationNode', namespace=c.cls, action_name=c.name, parameter_list=pl)
        # instance operation: needs a non-empty receiver of the right class
        recv = gen.nonempty_insts(env, c.cls)
        if gen.self_cls == c.cls and (not recv or gen.t.flag()):
            h = N('SelfAccessNode')
        elif recv:
            h = gen.var(gen.t.choice(recv))
        else:
            return None
        return N('InstanceInvocationNode', handle=h, action_name=c.name, parameter_list=pl)

    def expr(self, gen, env, ty, depth):
        cands = [c for c in self.available if c.ret == ty and c.kind != 'derived']
        if not cands:
            return None
        c = gen.t.choice(cands)
        gen.features.add('call-in-expression')
        return self.invocation(gen, env, c, depth)

    def stmt(self, gen, env):
        cands = [c for c in self.available if c.kind != 'derived']
        if not cands:
            return None
        c = gen.t.choice(cands)
        inv = self.invocation(gen, env, c, 2)
        if inv is None:
            return None
        gen.features.add('call-statement')
        lead = None
        if inv['t'] == 'ImplicitInvocationNode' and gen.t.flag():
            lead = 'bridge' if c.kind == 'bridge' else 'transform'
            inv['t'] = 'BridgeInvocationNode' if c.kind == 'bridge' else 'ClassInvocationNode'
        elif inv['t'] == 'InstanceInvocationNode' and gen.t.flag():
            lead = 'transform'
        if c.ret is not None and gen.t.flag():
            name = env.fresh({'int': 'i', 'str': 's', 'bool': 'b', 'real': 'r'}[c.ret])
            env.set(name, {'ty': c.ret})
            return [N('AssignmentNode', variable_access=gen.var(name), expression=inv, _lead=lead)]
        return [N('InvocationStatementNode', invocation=inv, _lead=lead)]


# a second constant group (prebuild fixtures only, where constants are written Group::NAME): some of its names are those
# of the first group, with another type and value
CONSTS2 = [('MAX_N', 'string', 'big'), ('RATIO', 'integer', '3'), ('SMALL', 'integer', '1'), ('GREETING', 'boolean', 'true')]

OAL_TY = {'integer': 'int', 'string': 'str', 'boolean': 'bool', 'real': 'real'}


# -- state machines of the prebuild fixtures (C05 / C06 / C08 part 3): generate / create event statements, event data, and
# state / transition actions reading the data of the event that brought them about ------------------------------------------
SM_DEFS = [
    {'cls': 'A', 'kind': 'ism',
     'events': [{'numb': 1, 'mning': 'go', 'data': [['n', 'integer'], ['s', 'string']]},
                {'numb': 2, 'mning': 'stop', 'data': []},
                {'numb': 3, 'mning': 'tick over', 'data': [['flag', 'boolean'], ['count', 'Count'], ['ratio', 'real']]},
                {'numb': 4, 'mning': 'made', 'data': [['n', 'integer']]}],
     'states': ['Idle', 'Running', 'Done', 'Born'],
     # every state is entered by one event only, so the data a state action may read is well defined
     'txns': [[0, 0, 1], [1, 2, 2], [2, 1, 0], [None, 3, 3], [3, 1, 0]],
     'ignored': [[0, 2], [1, 0]]},
    {'cls': 'B', 'kind': 'ism',
     'events': [{'numb': 1, 'mning': 'ping', 'data': [['k', 'integer']]}],
     'states': ['Wait', 'Busy'], 'txns': [[0, 0, 1], [1, 0, 0]], 'ignored': []},
    {'cls': 'A', 'kind': 'asm',
     'events': [{'numb': 1, 'mning': 'assign', 'data': [['r', 'real'], ['who', 'string']]}],
     'states': ['Free', 'Taken'], 'txns': [[0, 0, 1], [1, 0, 0]], 'ignored': []},
]
# (kind, machine index, state index | transition index)
STATE_SPECS = [('state', 0, 1), ('state', 1, 1), ('state', 0, 2), ('txn', 0, 0), ('state', 2, 1), ('state', 0, 0), ('state', 0, 3),
               ('state', 1, 0), ('txn', 1, 1), ('state', 2, 0)]
BP_OAL = {'integer': 'int', 'string': 'str', 'boolean': 'bool', 'real': 'real', 'Count': 'int', 'Flag': 'bool'}


def event_label(sm, ev):
    return '%s%s%d' % (sm['cls'], '_A' if sm['kind'] == 'asm' else '', ev['numb'])


def incoming_event(sm, kind, k):
    """the event whose data a state action (state index k) / transition action (transition index k) may read"""
    if kind == 'txn':
        return sm['events'][sm['txns'][k][1]]
    evs = set(ei for frm, ei, to in sm['txns'] if to == k)
    assert len(evs) == 1, (sm['cls'], k, evs)
    return sm['events'][evs.pop()]


class EventHooks(CallHooks):
    """statement hook of state / transition actions: two in three are event statements"""

    def stmt(self, gen, env):
        if self.available and gen.t.pick(3) == 0:
            return CallHooks.stmt(self, gen, env)
        return self.event_stmt(gen, env)

    def event_stmt(self, gen, env):
        t = gen.t
        sm = t.choice(SM_DEFS)
        creation = set(ei for frm, ei, to in sm['txns'] if frm is None)
        ei = t.pick(len(sm['events']))
        ev = sm['events'][ei]
        items = [N('EventDataItemNode', name=dn, expression=gen.expr(env, BP_OAL[dt], 1)) for dn, dt in ev['data']]
        if len(items) > 1 and t.flag():
            items = items[1:] + items[:1]            # data items are named: any order may be written
        spec = N('EventSpecNode', identifier=event_label(sm, ev), meaning="'%s'" % ev['mning'],
                 event_data=N('EventDataListNode', children=items))
        if not items and t.flag():
            spec['_empty_parens'] = True
        pre = []
        form = t.pick(3)
        if form:
            evs = env.vars(lambda i: i['ty'] == 'evt')
            if form == 2 and evs:
                name = t.choice(evs)                 # an event variable that exists already is assigned anew
            else:
                name = env.fresh('ev')
        if sm['kind'] == 'asm':
            kw = t.choice(['class', 'assigner'])
            node = (N('CreateClassEventNode', variable_name=name, event_specification=spec, key_letter=sm['cls'], _kind=kw) if form else
                    N('GenerateClassEventNode', event_specification=spec, key_letter=sm['cls'], _kind=kw))
        elif ei in creation:
            node = (N('CreateCreatorEventNode', variable_name=name, event_specification=spec, key_letter=sm['cls']) if form else
                    N('GenerateCreatorEventNode', event_specification=spec, key_letter=sm['cls']))
        else:
            recv = gen.nonempty_insts(env, sm['cls'])
            recv = [r for r in recv if r != 'self']
            if gen.self_cls == sm['cls'] and (not recv or t.flag()):
                tgt = N('SelfAccessNode')
            elif recv:
                tgt = gen.var(t.choice(recv))
            else:
                v, pre = gen.create(env, sm['cls'])
                tgt = gen.var(v)
            node = (N('CreateInstanceEventNode', variable_name=name, event_specification=spec, to_variable_access=tgt) if form else
                    N('GenerateInstanceEventNode', event_specification=spec, variable_access=tgt))
        out = pre + [node]
        gen.features.add('generate-event' if not form else 'create-event')
        if items:
            gen.features.add('event-data-%d' % min(len(items), 3))
        if form:
            env.set(name, {'ty': 'evt'})
            if t.flag():
                out.append(N('GeneratePreexistingNode', variable_access=gen.var(name)))
                gen.features.add('generate-preexisting')
        return out


def gen_states(ints, order, features, forced=None):
    """state / transition actions of the fixed state machines, appended to the callables of a prebuild fixture;
    forced: indexes into STATE_SPECS instead of the drawn selection (replay of recorded witnesses)"""
    t0 = Tape(list(ints[len(ints) // 2:]) + list(ints[:len(ints) // 2]))
    n = 2 + t0.pick(3)
    first = t0.pick(len(STATE_SPECS))
    chosen = [(first + j) % len(STATE_SPECS) for j in range(n)] if forced is None else list(forced)
    n = len(chosen)
    out = []
    for j in range(n):
        kind, mi, k = STATE_SPECS[chosen[j]]
        sm = SM_DEFS[mi]
        ev = incoming_event(sm, kind, k)
        off = ((j + 1) * len(ints)) // (n + 1)
        t = Tape(list(ints[off:]) + list(ints[:off]))
        name = '%s_%s_%s' % (sm['cls'], sm['kind'], sm['states'][k] if kind == 'state' else 't%d' % k)
        c = Callable(kind, name, [(dn, BP_OAL[dt]) for dn, dt in ev['data']], None, sm['cls'])
        c.udt = set(dn for dn, dt in ev['data'] if dt in UDT_BASE)
        c.sm = (mi, k)
        hooks = EventHooks([x for x in order if x.kind != 'derived'])
        g = Gen(t, max_stmts=6, max_depth=2, calls=hooks, params=dict(c.params),
                self_cls=sm['cls'] if sm['kind'] == 'ism' else None, ret_ty=None, allow_return=True)
        g.enums = ('Color', [e for e in ENUM if e != 'None'])
        g.consts = [('Limits', n_, OAL_TY[ty]) for n_, ty, _v in CONSTS] + [('Sizes', n_, OAL_TY[ty]) for n_, ty, _v in CONSTS2]
        g.const_style = 'namespaced'
        g.arrays = g.refattrs = g.self_relates = g.case_twins = True
        g.param_kw = ['param', 'rcvd_evt']
        env = Env()
        if g.self_cls:
            env.set('self', {'ty': 'inst', 'cls': g.self_cls, 'nonempty': True, 'ro': True})
        stmts = []
        for _ in range(1 + t.pick(2)):
            stmts += hooks.event_stmt(g, env)
        stmts += g.stmts(env, 2, False, top=True, minimum=1)
        c.body = N('BodyNode', block=block(stmts))
        features |= g.features
        out.append(c)
    return out


def gen_graph(ints, for_prebuild=False, logical_calls=False, states=None):
    t = Tape(ints)
    order = []
    # `b0` exists on two external entities and `cop` on two classes: equally named elements of different homes, early in the
    # list so that the later callables can invoke both in one body
    specs = [('function', 'f0', None), ('bridge', 'b0', 'MYEE'), ('bridge', 'b0', 'ZEE'), ('instop', 'iop', 'A'),
             ('classop', 'cop', 'A'), ('classop', 'cop', 'B'), ('function', 'f1', None), ('instop', 'bop', 'B'),
             ('derived', 'da', 'A'), ('function', 'f2', None), ('bridge', 'b1', 'MYEE')]
    n = 3 + t.pick(len(specs) - 2)
    features = set()
    t0 = t
    for j, (kind, name, cls) in enumerate(specs[:n]):
        # every callable reads the tape from its own starting point (wrapping around): the later ones are not starved
        # when the earlier ones used the tape up
        off = (j * len(ints)) // n
        t = Tape(list(ints[off:]) + list(ints[:off])) if j else t0
        if kind == 'derived':
            c = Callable(kind, name, [], 'int', cls)
        else:
            ret = t.choice(['int', 'int', 'str', 'bool', None])
            params = []
            for k in range(t.pick(3)):
                pt = t.choice(['int', 'int', 'str', 'bool'])
                # sometimes named like the local variables of the generated bodies (i1, s1, b1): parameters and
                # locals live in different namespaces
                pn = {'int': 'i%d', 'str': 's%d', 'bool': 'b%d'}[pt] % (k + 1) if t.pick(3) == 0 else 'p%d' % k
                if pn == 'p0':
                    pt = 'int'          # callables of one component commonly share a parameter name and type (see CallHooks)
                if pn not in [x[0] for x in params]:
                    params.append((pn, pt))
            c = Callable(kind, name, params, ret, cls)
            # some parameters / results are declared with a user data type based on the core type
            c.udt = set(pn for pn, pt in params if pt in UDT_OF and t.flag())
            if ret in UDT_OF and t.pick(4) == 0:
                c.udt.add('')
        hooks = CallHooks(list(order))
        g = Gen(t, max_stmts=5, max_depth=2, calls=hooks if order else None, params=dict(c.params),
                self_cls=cls if kind in ('instop', 'derived') else None, ret_ty=c.ret if kind != 'derived' else None,
                allow_return=kind != 'derived')
        g.enums = ('Color', [e for e in ENUM if e != 'None'])
        g.consts = [('Limits', n, OAL_TY[ty]) for n, ty, _v in CONSTS]
        if for_prebuild:
            g.consts = g.consts + [('Sizes', n, OAL_TY[ty]) for n, ty, _v in CONSTS2]
            g.self_relates = True
            g.case_twins = True
        g.const_style = 'namespaced' if for_prebuild else 'plain'
        g.arrays = for_prebuild
        g.refattrs = for_prebuild
        g.logical_calls = logical_calls
        env = Env()
        if g.self_cls:
            # the instance the operation / derived attribute runs on takes part like any other instance variable
            # (relate self to ..., select ... related by self->..., unrelate self from ...)
            env.set('self', {'ty': 'inst', 'cls': g.self_cls, 'nonempty': True, 'ro': True})
        recursive = kind == 'function' and c.ret == 'int' and t.pick(3) == 0
        stmts = []
        if recursive:
            c.params = [('k', 'int')] + [p for p in c.params if p[0] != 'k']
            g.params = dict(c.params)
            P = lambda nme: N('ParamAccessNode', variable_name=nme, _kw='param')
            stmts.append(N('IfNode', expression=N('BinaryOperationNode', left=P('k'), operator='<=', right=N('IntegerNode', value='0')),
                           block=block([N('ReturnNode', expression=N('IntegerNode', value=t.choice(['0', '1', '5'])))]),
                           elif_list=N('ElIfListNode', children=[]), else_clause=None))
        shadowed = [(pn, pt) for pn, pt in c.params if not pn.startswith('p') and pn != 'k']
        if shadowed and t.pick(4) != 0:
            # the usual "copy the parameter into a local of the same name" idiom; the parameter keeps its value
            PA = lambda nme: N('ParamAccessNode', variable_name=nme, _kw='param')
            for pn, pt in shadowed:
                rhs = {'int': lambda: N('BinaryOperationNode', left=PA(pn), operator=t.choice(['+', '*', '-']),
                                        right=N('IntegerNode', value=t.choice(['2', '3', '7']))),
                       'str': lambda: N('BinaryOperationNode', left=PA(pn), operator='+', right=N('StringNode', value='"~"')),
                       'bool': lambda: N('UnaryOperationNode', operator='not', operand=PA(pn))}[pt]()
                env.set(pn, {'ty': pt})
                stmts.append(N('AssignmentNode', variable_access=g.var(pn), expression=rhs))
            features.add('param-shadowed')
        else:
            shadowed = []
        for pn, pt in c.params:
            if pt == 'bool' and pn in getattr(c, 'udt', ()) and t.flag():
                # a value of a user data type as the left operand of a logical operator: the result is a boolean
                bv = env.fresh('b')
                stmts.append(N('AssignmentNode', variable_access=g.var(bv), expression=N(
                    'BinaryOperationNode', left=N('ParamAccessNode', variable_name=pn, _kw='param'),
                    operator=t.choice(['and', 'or']), right=g.expr(env, 'bool', 1))))
                env.set(bv, {'ty': 'bool'})
        if logical_calls and order and kind != 'derived' and t.pick(4) != 0:
            # keyword operators over an invocation at the top of the body (always executed)
            cexpr = hooks.expr(g, env, 'bool', 1)
            if cexpr is not None:
                bv = env.fresh('b')
                form = t.pick(3)
                e = N('UnaryOperationNode', operator='not', operand=cexpr) if form == 0 else (
                    N('BinaryOperationNode', left=cexpr, operator=t.choice(['and', 'or']), right=g.expr(env, 'bool', 1)) if form == 1 else
                    N('BinaryOperationNode', left=g.expr(env, 'bool', 1), operator=t.choice(['and', 'or']), right=cexpr))
                stmts.append(N('AssignmentNode', variable_access=g.var(bv), expression=e))
                env.set(bv, {'ty': 'bool'})
        if for_prebuild and g.self_cls and t.flag():
            # the first mention of the running instance is as a participant of a relate / unrelate statement inside a
            # nested block; the body goes on using it after that block has ended
            fc, tc, rel, ph = t.choice([r for r in oalprog.RELATES if g.self_cls in (r[0], r[1])])
            other = tc if fc == g.self_cls else fc
            x = env.fresh(other.lower() + '_')
            env.set(x, {'ty': 'inst', 'cls': other, 'nonempty': False})
            a, b = ('self', x) if t.flag() else (x, 'self')
            link = N('RelateNode' if t.flag() else 'UnrelateNode', from_variable_name=a, to_variable_name=b, rel_id='R%d' % rel,
                     phrase=("'%s'" % ph) if ph else '')
            stmts.append(N('SelectFromNode', cardinality='any', variable_name=x, key_letter=other))
            stmts.append(N('IfNode', expression=N('UnaryOperationNode', operator='not_empty', operand=g.var(x)), block=block([link]),
                           elif_list=N('ElIfListNode', children=[]), else_clause=None))
            features.add('self-first-in-nested-relate')
        stmts += g.stmts(env, 2, False, top=True, minimum=1)
        if kind == 'derived' and t.flag():
            # early out: the value assigned before a bare return is the value of the attribute
            SF = lambda f: N('FieldAccessNode', handle=N('SelfAccessNode'), name=f)
            cond = N('BinaryOperationNode', left=SF('n'), operator=t.choice(['<', '>', '>=', '!=']),
                     right=N('IntegerNode', value=t.choice(['0', '3', '7', '12'])))
            stmts.append(N('IfNode', expression=cond, block=block([
                N('AssignmentNode', variable_access=SF(name), expression=N('BinaryOperationNode', left=SF('n'), operator='-',
                                                                           right=g.expr(env, 'int', 1))),
                N('ReturnNode', expression=None)]), elif_list=N('ElIfListNode', children=[]), else_clause=None))
            features.add('derived-early-return')
        if kind == 'derived':
            stmts.append(N('AssignmentNode', variable_access=N('FieldAccessNode', handle=N('SelfAccessNode'), name=name),
                           expression=N('BinaryOperationNode', left=N('FieldAccessNode', handle=N('SelfAccessNode'), name='n'),
                                        operator=t.choice(['+', '*']), right=g.expr(env, 'int', 1))))
        elif recursive:
            args = [N('ParameterNode', name='k', expression=N('BinaryOperationNode', left=N('ParamAccessNode', variable_name='k', _kw='param'),
                                                             operator='-', right=N('IntegerNode', value=t.choice(['1', '1', '2']))))]
            for pn, pt in c.params[1:]:
                args.append(N('ParameterNode', name=pn, expression=g.expr(env, pt, 1)))
            rec = N('FunctionInvocationNode', action_name=name, parameter_list=N('ParameterListNode', children=args))
            stmts.append(N('ReturnNode', expression=N('BinaryOperationNode', left=N('ParamAccessNode', variable_name='k', _kw='param'),
                                                      operator='+', right=rec)))
            features.add('recursion')
        elif c.ret is not None:
            e = g.expr(env, c.ret, 2)
            if c.ret == 'int':
                # the result depends on every integer variable still in scope: a callee that disturbed them shows
                for v in env.vars(lambda i: i['ty'] == 'int')[:4]:
                    e = N('BinaryOperationNode', left=e, operator='+', right=g.var(v))
                # ... and on every integer parameter, read after whatever the body called
                for pn, pt in c.params:
                    if pt == 'int':
                        e = N('BinaryOperationNode', left=e, operator='+', right=N('ParamAccessNode', variable_name=pn, _kw='param'))
            elif c.ret == 'str':
                for v in env.vars(lambda i: i['ty'] == 'str')[:3]:
                    e = N('BinaryOperationNode', left=e, operator='+', right=g.var(v))
                for pn, pt in c.params:
                    if pt == 'str':
                        e = N('BinaryOperationNode', left=e, operator='+', right=N('ParamAccessNode', variable_name=pn, _kw='param'))
            elif c.ret == 'bool':
                for pn, pt in c.params:
                    if pt == 'bool':
                        e = N('BinaryOperationNode', left=e, operator='==', right=N('ParamAccessNode', variable_name=pn, _kw='param'))
            stmts.append(N('ReturnNode', expression=e))
        else:
            k = t.pick(3)
            if k == 0:
                stmts.append(N('ReturnNode', expression=None))
                features.add('bare-return')
        if for_prebuild and j == 0:
            # a fixed shape at the head of the first body (no draws, so the tape means what it meant): an `if` nested in an
            # elif block that is followed by a further elif and an else - whoever translates the inner one must come back to
            # the right clause of the outer one
            B = lambda v: N('BooleanNode', value=v)
            A = lambda nme, v: N('AssignmentNode', variable_access=N('VariableAccessNode', variable_name=nme), expression=N('IntegerNode', value=str(v)))
            inner = N('IfNode', expression=B('true'), block=block([A('zq_in', 1)]),
                      elif_list=N('ElIfListNode', children=[N('ElIfNode', expression=B('false'), block=block([A('zq_in', 2)]))]),
                      else_clause=N('ElseNode', block=block([A('zq_in', 3)])))
            outer = N('IfNode', expression=B('false'), block=block([A('zq_out', 1)]),
                      elif_list=N('ElIfListNode', children=[N('ElIfNode', expression=B('true'), block=block([A('zq_out', 2), inner])),
                                                            N('ElIfNode', expression=B('false'), block=block([A('zq_out', 3)]))]),
                      else_clause=N('ElseNode', block=block([A('zq_out', 4)])))
            stmts.insert(0, outer)
        c.body = N('BodyNode', block=block(stmts))
        features |= g.features
        order.append(c)
    if for_prebuild:
        order += gen_states(ints, order, features, states)
    return order, features, t0


def text_of(body, kwcase=None):
    p = Printer(choose=lambda key, options: options[0], case=oalsyn_caser(kwcase) if kwcase else None)
    p.block(body['block'])
    return render(p.toks, [' '])[0]


UDT_OF = {'bool': 'Flag', 'int': 'Count'}
UDT_BASE = {'Flag': 'boolean', 'Count': 'integer'}


def oalsyn_caser(kwcase):
    from .oalsyn import caser
    return caser(kwcase)


def diagram_with(callables, enum_order, kwcase=None, second_group=False):
    D, ix = base_diagram()
    if second_group:
        D['constants'].append({'name': 'Sizes', 'parent': ['pkg', 2],
                               'items': [{'name': n, 'type': ty, 'value': v} for n, ty, v in CONSTS2]})
    D['types'].append({'name': 'Color', 'kind': 'enum', 'enumerators': list(ENUM), 'parent': ['pkg', 2]})
    D['constants'].append({'name': 'Limits', 'parent': ['pkg', 2],
                           'items': [{'name': n, 'type': ty, 'value': v} for n, ty, v in CONSTS]})
    ees = {'MYEE': {'name': 'My EE', 'kl': 'MYEE', 'parent': ['pkg', 2], 'bridges': []},
           'ZEE': {'name': 'Z EE', 'kl': 'ZEE', 'parent': ['pkg', 2], 'bridges': []}}
    for udt, base in sorted(UDT_BASE.items()):
        D['types'].append({'name': udt, 'kind': 'udt', 'base': base, 'parent': ['pkg', 2]})
    for c in callables:
        udt = getattr(c, 'udt', ())
        params = [[pn, UDT_OF[pt] if pn in udt else TY_BP[pt]] for pn, pt in c.params]
        ret = UDT_OF[c.ret] if '' in udt else TY_BP[c.ret]
        c.text = text_of(c.body, kwcase)
        if c.kind == 'function':
            D['functions'].append({'name': c.name, 'ret': ret, 'params': params, 'body': c.text, 'parent': ['pkg', 2]})
        elif c.kind == 'bridge':
            ees[c.cls]['bridges'].append({'name': c.name, 'ret': ret, 'params': params, 'body': c.text})
        elif c.kind in ('classop', 'instop'):
            D['classes'][ix[c.cls]]['ops'].append({'name': c.name, 'instance': c.kind == 'instop', 'ret': ret,
                                                   'params': params, 'body': c.text})
        elif c.kind == 'derived':
            D['classes'][ix[c.cls]]['attrs'].append({'name': c.name, 'type': 'integer', 'derived': c.text})
    for kl in ('MYEE', 'ZEE'):
        if ees[kl]['bridges']:
            D['ees'].append(ees[kl])
    states = [c for c in callables if c.kind in ('state', 'txn')]
    if states:
        for mi, sm in enumerate(SM_DEFS):
            body = dict((c.sm[1], c.text) for c in states if c.kind == 'state' and c.sm[0] == mi)
            tbody = dict((c.sm[1], c.text) for c in states if c.kind == 'txn' and c.sm[0] == mi)
            D['classes'][ix[sm['cls']]].setdefault('sms', []).append({
                'kind': sm['kind'], 'events': sm['events'],
                'states': [{'name': nme, 'numb': k + 1, 'body': body.get(k, '')} for k, nme in enumerate(sm['states'])],
                'txns': [[frm, ei, to, tbody.get(k)] for k, (frm, ei, to) in enumerate(sm['txns'])],
                'ignored': sm['ignored']})
    return D


def kwcase_free(case):
    # C08 part (4) runs the same case twice under two keyword spellings and compares the runs: no extra invocations there
    return case.get('kwcase') in (None, [0]) and 'fail_first' in case


class CallModel(object):
    """call semantics for the reference evaluator"""

    def __init__(self, callables, world):
        self.by = {}
        for c in callables:
            self.by[(c.kind, c.cls, c.name)] = c
        self.world = world
        self.max_depth = 0
        self.shared_names = False

    def find(self, node, ev):
        t = node['t']
        if t == 'FunctionInvocationNode':
            return self.by.get(('function', None, node['action_name'])), None
        if t in ('ImplicitInvocationNode', 'ClassInvocationNode', 'BridgeInvocationNode'):
            ns = node['namespace']
            return self.by.get(('classop', ns, node['action_name'])) or self.by.get(('bridge', ns, node['action_name'])), None
        if t == 'InstanceInvocationNode':
            inst = ev.live(ev.expr(node['handle']), 'operation')
            return self.by.get(('instop', inst.cls, node['action_name'])), inst
        return None, None

    def invoke(self, node, args, ev):
        c, inst = self.find(node, ev)
        if c is None:
            raise Discard('unknown callable')
        return self.call(c, args, inst, ev.depth + 1, ev)

    def call(self, c, args, inst, depth, ev=None):
        if depth > 40:
            raise Discard('call depth')
        if set(args) != set(pn for pn, _ in c.params):
            raise Discard('argument names do not match the parameters')
        sub = Evaluator(self.world, self, params=dict(args), self_inst=inst, depth=depth)
        if ev is not None:
            sub.fuel = ev.fuel
            caller_vars = set(k for b in ev.blocks for k in b)
        else:
            caller_vars = set()
        self.max_depth = max(self.max_depth, depth)
        out = sub.run_body(c.body)
        return out

    def is_derived(self, inst, name):
        return ('derived', inst.cls, name) in self.by

    def derived(self, inst, name, ev):
        c = self.by.get(('derived', inst.cls, name))
        if c is None:
            return NotImplemented
        sub = Evaluator(self.world, self, params={}, self_inst=inst, depth=ev.depth + 1)
        sub.fuel = ev.fuel
        sub.derived_target = (inst, name)
        sub.run_body(c.body)
        return sub.derived_value

    def constant(self, ns, name):
        if ns == 'Color' and name in ENUM:
            return ENUM.index(name)
        raise Discard('unknown enumerator')

    def named_constant(self, name):
        for n, ty, v in CONSTS:
            if n == name:
                return {'integer': int, 'real': float, 'string': str, 'boolean': lambda x: x == 'true'}[ty](v)
        return NotImplemented


def cases(kwcase=None):
    # kwcase: spelling styles of the keywords in the bodies (lower case unless a strategy is given; C08 gives one)
    return st.fixed_dictionaries({'tape': oalsyn.tapes(900, 120), 'pop': c04_interpret.populations(),
                                  'order': st.lists(st.integers(0, 10 ** 6), min_size=1, max_size=8),
                                  'args': st.lists(st.integers(0, 9), min_size=1, max_size=12),
                                  'kwcase': kwcase if kwcase is not None else st.just([0]),
                                  'logical_calls': st.just(kwcase is not None),
                                  # one case in four lets every invocation be preceded by one that fails
                                  'fail_first': st.integers(0, 3).map(lambda k: k == 3) if kwcase is None else st.just(False)})


def build(case):
    callables, features, t = gen_graph(case['tape'], logical_calls=bool(case.get('logical_calls')))
    D = diagram_with(callables, None, case.get('kwcase'))
    rows, _ix = bpmodel.to_rows(D)
    rows = c14_component.shuffle(rows, case['order'])
    text = bpmodel.render(rows)
    l = ooaofooa.ModelLoader()
    l.input(text)
    mm = l.build_metamodel()
    c_c = mm.select_any('C_C', xtuml.where_eq(Name='Comp'))
    domain = ooaofooa.mk_component(mm, c_c, derived_attributes=False)
    domain.id_generator = xtuml.IntegerGenerator()
    return callables, features, domain, text


def populate(domain, pop):
    w = World(oalprog.SCHEMA)
    real = []
    for cls, vals in pop['rows']:
        real.append(domain.new(cls, **vals))
        w.create(cls, vals)
    sc = w.sh.schema
    for i, s, t in pop['links']:
        a = sc.assocs[i]
        srcs, tgts = w.sh.live(a['src']), w.sh.live(a['tgt'])
        if not srcs or not tgts:
            continue
        sr, tr = srcs[s % len(srcs)], tgts[t % len(tgts)]
        if sr is tr or (a['shape'] == 'assoc' and w.sh.partners(i, sr, True)):
            continue
        try:
            if w.sh.relate(sr, tr, a['rel'], a['src_phrase']) != 'linked':
                continue
        except Exception:
            continue
        xtuml.relate(real[sr.idx], real[tr.idx], a['rel'], a['src_phrase'])
    return w, real


def arg_value(ty, k):
    return {'int': [0, 1, 2, 3, 4, 5, 6, 2, 1, 3], 'str': ['', 'a', 'b', 'xy', 'a', 'b', '', 'q', 'a', 'z'],
            'bool': [True, False] * 5, 'real': [0.5, 1.5] * 5}[ty][k % 10]


def run_case(case, res=None):
    try:
        callables, features, domain, text = build(case)
    except Exception as e:
        raise Violation('component-build-exception:' + exc_bucket(e), case, repr(e))
    info = dict(case, bodies=dict((c.key, c.text) for c in callables))

    def fail(bucket, detail):
        raise Violation(bucket, info, detail)
    w, real = populate(domain, case['pop'])
    model = CallModel(callables, w)
    # schema of the extracted component must be the reference schema (else populations are not comparable)
    c04_interpret.compare_population(domain, w.sh, info, 'initial')
    # enumeration and constants, independent of row order
    try:
        color = domain.find_symbol('Color')
        for k, en in enumerate(ENUM):
            got = getattr(color, en if en != 'None' else 'None_')
            if got != k:
                fail('enumerator-value', 'Color::%s = %r, modelled position %d' % (en, got, k))
        for n, ty, v in CONSTS:
            got = domain.find_symbol(n)
            want = model.named_constant(n)
            if got != want or type(got) is not type(want):
                fail('constant-value', '%s = %r, modelled %r' % (n, got, want))
    except Violation:
        raise
    except Exception as e:
        fail('symbol-exception:' + exc_bucket(e), repr(e))
    compared = 0
    failed_first = 0
    k = 0
    for c in callables:
        args = {}
        for pn, pt in c.params:
            args[pn] = arg_value(pt, case['args'][k % len(case['args'])])
            k += 1
        inst_rec = None
        if c.kind in ('instop', 'derived'):
            live = w.sh.live(c.cls)
            if not live:
                continue
            inst_rec = live[case['args'][k % len(case['args'])] % len(live)]
            k += 1
        # an invocation that fails first (a derived attribute read while self.n holds no number, a callable invoked without
        # its arguments): whatever the failure leaves behind must not change what the next, well-formed invocation delivers.
        # A failing body may have changed the population before it failed; then the rest of the case is not compared.
        # (a derived attribute is always read once in vain first: a read that fails and a later good one is the everyday history)
        if (case.get('fail_first') and c.params) or (c.kind == 'derived' and kwcase_free(case)):
            next_id = domain.id_generator.peek()
            try:
                with TimeLimit(20):
                    if c.kind == 'derived':
                        for i in domain.select_many(c.cls):
                            if getattr(i, 'Id', None) == inst_rec.vals.get('Id'):
                                keep = i.n
                                i.n = None
                                try:
                                    getattr(i, c.name)
                                finally:
                                    i.n = keep
                    elif c.kind == 'function':
                        domain.find_symbol(c.name)()
                    elif c.kind == 'bridge':
                        getattr(domain.find_symbol(c.cls), c.name)()
                    elif c.kind == 'classop':
                        getattr(domain.find_class(c.cls), c.name)()
            except TimeLimit.Expired:
                fail('invocation-does-not-terminate', 'failing invocation of %s %s' % (c.kind, c.name))
            except Exception:
                pass
            try:
                c04_interpret.compare_population(domain, w.sh, info, 'after-failed-%s' % c.kind)
                if domain.id_generator.peek() != next_id:
                    raise Violation('ids-used-up', info, '')
            except Violation:
                if res is not None:
                    res.discarded['a failing invocation changed the population before it failed'] += 1
                return
            failed_first += 1
        try:
            if c.kind == 'derived':
                want = model.derived(inst_rec, c.name, Evaluator(w, model))
            else:
                want = model.call(c, args, inst_rec, 1)
        except Discard as d:
            if res is not None:
                res.discarded[d.reason] += 1
            # the reference may have mutated its world before discarding: stop comparing this case
            return
        # locate the real receiver by position
        try:
            with TimeLimit(20):
                if c.kind == 'function':
                    got = domain.find_symbol(c.name)(**args)
                elif c.kind == 'bridge':
                    got = getattr(domain.find_symbol(c.cls), c.name)(**args)
                elif c.kind == 'classop':
                    got = getattr(domain.find_class(c.cls), c.name)(**args)
                else:
                    pos = [r for r in w.sh.recs if r.cls == inst_rec.cls and (r.alive or r is inst_rec)]
                    insts = list(domain.select_many(c.cls))
                    live_before = [r for r in w.sh.recs if r.cls == inst_rec.cls]
                    # the receiver existed before the call: find it among the instances by its identifier
                    recv = None
                    for i in insts:
                        if getattr(i, 'Id', None) == inst_rec.vals.get('Id'):
                            recv = i
                    if recv is None:
                        continue
                    got = getattr(recv, c.name)(**args) if c.kind == 'instop' else getattr(recv, c.name)
        except TimeLimit.Expired:
            fail('invocation-does-not-terminate', '%s %s' % (c.kind, c.name))
        except Exception as e:
            fail('invocation-exception:%s:%s' % (c.kind, exc_bucket(e)), '%r\n%s' % (e, c.text))
        real_map, back = c04_interpret.compare_population(domain, w.sh, info, 'after-%s' % c.kind)
        if not c04_interpret.value_eq(got, want, back):
            fail('result:%s' % c.kind, '%s %s(%r) returned %r, reference %r\n%s' % (c.kind, c.name, args, got, want, c.text))
        compared += 1
        if c.kind == 'derived':
            # recomputed on every read: mutate self.n and read again
            inst_rec.vals['n'] = inst_rec.vals.get('n', 0) + 5
            recv.n = recv.n + 5
            try:
                want2 = model.derived(inst_rec, c.name, Evaluator(w, model))
            except Discard:
                return
            got2 = getattr(recv, c.name)
            if not c04_interpret.value_eq(got2, want2, back):
                fail('derived-not-recomputed', 'after self.n += 5: read %r, reference %r\n%s' % (got2, want2, c.text))
    if res is not None:
        nt = (model.max_depth >= 2) or 'recursion' in features or 'bare-return' in features
        cl = sorted('f:' + f for f in features if f in ('recursion', 'bare-return', 'param-shadowed', 'derived-early-return', 'call-in-expression', 'call-statement',
                                                        'same-named-parameter-passed-on', 'return-in-loop', 'where', 'foreach', 'while'))
        cl.append('depth-%d' % min(model.max_depth, 4))
        if failed_first:
            cl.append('failed-invocation-first')
        res.case(case['tape'], nt and compared > 0,
                 sample=info['bodies'] if nt and len(repr(info['bodies'])) < 1800 else None, classes=cl)


def selftest():
    D, ix = base_diagram()
    want = bpmodel.expected_component(D, 0)
    assert want['classes']['B'] == [['Id', 'UNIQUE_ID'], ['n', 'INTEGER'], ['s', 'STRING'], ['A_Id', 'UNIQUE_ID']]
    assert len(want['assocs']) == 7


def run(ctx):
    res = Res()

    def body(case):
        try:
            run_case(case, res)
        except Violation:
            raise
        except Exception as e:
            raise Violation('harness-exception:' + exc_bucket(e), case, repr(e))

    hyp_run(ctx, res, cases(), body, ctx.pick(220, 1500), label='callgraphs')
    return res


def replay(case):
    run_case(case)
