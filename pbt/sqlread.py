"""Harness-side reader of the xtUML SQL dialect (independent of xtuml.load).

A small hand-written scanner: enough for schema text (CREATE TABLE / ROP / UNIQUE INDEX)
and INSERT statements as written by BridgePoint and by pyxtuml.
"""
import re
import uuid

TOKEN = re.compile(r"""
    (?P<ws>[ \t\r\n\x0c]+)
  | (?P<comment>--[^\n]*\n?)
  | (?P<string>'(?:''|[^'])*')
  | (?P<guid>"[^"\n]*")
  | (?P<card>1C\b)
  | (?P<fraction>\d+\.\d+)
  | (?P<number>\d+)
  | (?P<word>[A-Za-z_][A-Za-z0-9_]*)
  | (?P<punct>[(),;\-])
""", re.X)


class ReadError(Exception):
    pass


def tokens(text):
    pos = 0
    out = []
    n = len(text)
    while pos < n:
        m = TOKEN.match(text, pos)
        if not m:
            raise ReadError('cannot scan at %d: %r' % (pos, text[pos:pos + 20]))
        pos = m.end()
        k = m.lastgroup
        if k in ('ws', 'comment'):
            continue
        out.append((k, m.group(k)))
    return out


def statements(text):
    """-> list of token lists, one per ';'-terminated statement."""
    out, cur = [], []
    for t in tokens(text):
        if t == ('punct', ';'):
            out.append(cur)
            cur = []
        else:
            cur.append(t)
    if cur:
        raise ReadError('unterminated statement')
    return out


def value_of(tok, neg=False):
    k, v = tok
    if k == 'string':
        return v[1:-1].replace("''", "'")
    if k == 'guid':
        return ('guid', uuid.UUID(v[1:-1]).int)
    if k == 'fraction':
        return -float(v) if neg else float(v)
    if k == 'number':
        return -int(v) if neg else int(v)
    if k == 'word' and v.upper() in ('TRUE', 'FALSE'):
        return v.upper() == 'TRUE'
    raise ReadError('not a value: %r' % (tok,))


def _names(toks, i):
    """parse '(' name {',' name} ')' at i -> (list, next index)"""
    assert toks[i] == ('punct', '('), toks[i:i + 3]
    i += 1
    names = []
    while toks[i] != ('punct', ')'):
        if toks[i] != ('punct', ','):
            names.append(toks[i][1])
        i += 1
    return names, i + 1


def parse(text):
    """-> dict(classes=[{'name','attrs'}], assocs=[...], uniques=[...], inserts=[(kind, names|None, [values])])"""
    res = {'classes': [], 'assocs': [], 'uniques': [], 'inserts': []}
    for st in statements(text):
        w = [t[1].upper() if t[0] == 'word' else None for t in st]
        if w[:2] == ['CREATE', 'TABLE']:
            name = st[2][1]
            i = 4
            attrs = []
            while st[i] != ('punct', ')'):
                if st[i] == ('punct', ','):
                    i += 1
                    continue
                attrs.append([st[i][1], st[i + 1][1]])
                i += 2
            res['classes'].append({'name': name, 'attrs': attrs})
        elif w[:3] == ['CREATE', 'ROP', 'REF_ID']:
            rel = int(st[3][1][1:])
            i = 5

            def end(i):
                k, v = st[i]
                cardn = v
                cls = st[i + 1][1]
                keys, j = _names(st, i + 2)
                phrase = ''
                if j < len(st) and st[j][0] == 'word' and st[j][1].upper() == 'PHRASE':
                    phrase = value_of(st[j + 1])
                    j += 2
                return cardn, cls, keys, phrase, j
            c1, k1, keys1, p1, i = end(i)
            assert st[i][1].upper() == 'TO', st[i]
            c2, k2, keys2, p2, i = end(i + 1)
            res['assocs'].append({'rel': rel, 'shape': 'read', 'src': k1, 'src_keys': keys1,
                                  'src_many': 'M' in c1.upper(), 'src_cond': 'C' in c1.upper(), 'src_phrase': p1,
                                  'tgt': k2, 'tgt_keys': keys2, 'tgt_many': 'M' in c2.upper(),
                                  'tgt_cond': 'C' in c2.upper(), 'tgt_phrase': p2})
        elif w[:3] == ['CREATE', 'UNIQUE', 'INDEX']:
            name = st[3][1]
            cls = st[5][1]
            attrs, _ = _names(st, 6)
            res['uniques'].append({'cls': cls, 'name': name, 'attrs': attrs})
        elif w[:2] == ['INSERT', 'INTO']:
            kind = st[2][1]
            i = 3
            names = None
            if st[i] == ('punct', '('):
                names, i = _names(st, i)
            assert st[i][1].upper() == 'VALUES', st[i]
            i += 2
            vals = []
            neg = False
            while st[i] != ('punct', ')'):
                if st[i] == ('punct', ','):
                    pass
                elif st[i] == ('punct', '-'):
                    neg = True
                else:
                    vals.append(value_of(st[i], neg))
                    neg = False
                i += 1
            res['inserts'].append((kind, names, vals))
        else:
            raise ReadError('unknown statement %r' % (st[:4],))
    return res


def typed_row(attrs, names, vals):
    """Map read values onto declared attributes -> dict attr -> python value."""
    row = {}
    if names is None:
        pairs = zip(attrs, vals)
    else:
        lookup = dict((n.upper(), v) for n, v in zip(names, vals))
        pairs = [((n, t), lookup.get(n.upper())) for n, t in attrs if n.upper() in lookup]
    for (n, t), v in pairs:
        T = t.upper()
        if isinstance(v, tuple) and v[0] == 'guid':
            v = v[1]
        if T == 'BOOLEAN' and not isinstance(v, bool):
            v = bool(v)
        if T == 'REAL' and isinstance(v, int):
            v = float(v)
        row[n] = v
    return row
