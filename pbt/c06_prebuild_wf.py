"""C06 - prebuilt instances form a well-formed, correctly typed population."""
import collections

from hypothesis import strategies as st

import xtuml
from xtuml import navigate_one as one, navigate_many as many
from . import oalsyn, prebuildfix, c11_consistency
from .oalgen import node_span, EXPRESSION_NODES, STATEMENT_NODES
from .gen_schema import Schema
from .core import Violation, hyp_run, Res, exc_bucket, TimeLimit
from .c15_callables import CONSTS, CONSTS2, OAL_TY, SM_DEFS

PROPERTY = 'C06'
RULE = ('the fixtures of C05 (generated name-resolved bodies in function, bridge, class/instance operation, derived '
        'attribute, state and transition action homes of a synthesised BridgePoint model with three state machines; bodies '
        'include generate / create event statements with event data and reads of received event data) after prebuild_model. Validity predicates computed by the '
        'harness: (1) zero violations under the harness\'s own multiplicity / uniqueness counter over the ooaofooa schema '
        '(read from bridgepoint/schema.py by the harness reader) and agreement of is_consistent(); (2) every ACT_SMT / '
        'V_VAL has exactly one subtype across R603 / R801; (3) as persisted: Previous_Statement_ID of statement k is the '
        'id of statement k-1 (unset for the first), V_PAR.Next_Value_ID of parameter k is parameter k+1 (unset for the '
        'last), ACT_LNK.Next_Link_ID along the navigation chain and R637 designating its first step; (4) ACT_SMT '
        'LineNumber / StartPosition / EndPosition / Label and V_VAL LineNumber / StartPosition / EndPosition equal the '
        'spans computed by the harness printer; (5) every V_VAR is related (R823) to the block of the scope that declares '
        'it; (6) typing over R820 / R848: comparisons and boolean operators boolean, cardinality integer, literals their '
        'type, variables the type first assigned, attribute and parameter reads the declared type, instance selections '
        'inst_ref<K> / inst_ref_set<K>. non-trivial = >= 2 blocks and a multi-parameter invocation or multi-step chain; '
        'distinct = by body text.')
ASSUMPTIONS = [
    'arithmetic result types are checked only when both operand types are equal; unary +/-, invocations, array '
    'elements and `selected` are not type-checked',
    'the implicit variable `self` is not attributed to a block (it is created at first use)',
    'elif / else clauses are not statements of a statement list (no R661 demanded for them)',
]


def cases():
    # the keywords of the bodies are written in drawn spellings (the population must not depend on them)
    return st.fixed_dictionaries({'tape': oalsyn.tapes(900, 120), 'order': st.lists(st.integers(0, 10 ** 6), max_size=6),
                                  'kwcase': st.one_of(st.just([0]), st.lists(st.integers(0, 3), min_size=1, max_size=9)),
                                  # 0: one statement per line; 1: one line, line breaks inside the 'end if/for/while' tokens
                                  'style': st.sampled_from([0, 0, 1])})


_ooa = {}


def ooa():
    if not _ooa:
        js, _g = c11_consistency.ooa_schema()
        _ooa['js'] = js
        _ooa['sc'] = Schema(js)
    return _ooa['js'], _ooa['sc']


def own_counts(m):
    """multiplicity / uniqueness violations counted by the harness from public navigation and the schema text"""
    js, sc = ooa()
    viol = []
    for a in js['assocs']:
        srcs = m.select_many(a['src'])
        tgts = m.select_many(a['tgt'])
        if not srcs and not tgts:
            continue
        for s in srcs:
            k = len(xtuml.navigate_many(s).nav(a['tgt'], a['rel'], a['src_phrase'])())
            if (k < 1 and not a['tgt_cond']) or (k > 1 and not a['tgt_many']):
                viol.append('R%d: %s instance has %d %s partner(s)' % (a['rel'], a['src'], k, a['tgt']))
        for t in tgts:
            k = len(xtuml.navigate_many(t).nav(a['src'], a['rel'], a['tgt_phrase'])())
            if (k < 1 and not a['src_cond']) or (k > 1 and not a['src_many']):
                viol.append('R%d: %s instance has %d %s partner(s)' % (a['rel'], a['tgt'], k, a['src']))
    uniq = []
    ident = collections.defaultdict(set)
    for u in js['uniques']:
        ident[u['cls']] |= set(u['attrs'])
    for a in js['assocs']:
        ident[a['tgt']] |= set(a['tgt_keys'])
    for cdef in js['classes']:
        insts = m.select_many(cdef['name'])
        if not insts:
            continue
        for i in insts:
            for n, t in cdef['attrs']:
                if n in ident[cdef['name']]:
                    v = getattr(i, n)
                    if v is None or (t.upper() == 'UNIQUE_ID' and v == 0):
                        uniq.append('%s.%s is null' % (cdef['name'], n))
        for u in js['uniques']:
            if u['cls'] != cdef['name']:
                continue
            seen = set()
            for i in insts:
                key = tuple(getattr(i, n) for n in u['attrs'])
                if key in seen:
                    uniq.append('%s %s repeats %r' % (cdef['name'], u['name'], key))
                seen.add(key)
    return viol, uniq


def subtype_classes(rel, supertype):
    js, _ = ooa()
    return [a['src'] for a in js['assocs'] if a['rel'] == rel and a['tgt'] == supertype]


class Scopes(object):
    """block scoping as the language defines it (also what the prebuilder's symbol table implements)"""

    def __init__(self):
        self.stack = []

    def push(self, key):
        self.stack.append((key, {}))

    def pop(self):
        self.stack.pop()

    def find(self, name):
        for key, d in reversed(self.stack):
            if name in d:
                return d[name]
        return None

    def declare(self, name, ty):
        self.stack[-1][1][name] = {'ty': ty, 'block': self.stack[-1][0]}
        return self.stack[-1][1][name]


def block_key(p, pos, blk):
    kids = blk['statement_list']['children']
    if not kids:
        return None
    s = node_span(p, pos, kids[0])
    return (s[0], s[1])


class Expect(object):
    """walks the generated AST and collects what the prebuilt population must look like"""

    def __init__(self, fx, c):
        self.fx = fx
        self.c = c
        self.p, self.text, self.pos = fx.printed[c.key]
        self.stmts = []          # (node, span)
        self.lists = []          # statement lists: [nodes]
        self.exprs = []          # (node, span, type or None)
        self.vars = []           # (name, block key, type or None)
        self.params = []         # parameter lists: [param nodes]
        self.chains = []         # (select node, [steps])
        self.sc = Scopes()
        self.feats = set()
        self.nblocks = 0
        self.attr_types = {}
        for cl in fx.D['classes']:
            for a in cl['attrs']:
                from .bpmodel import attr_base
                ci = fx.D['classes'].index(cl)
                bc, ba = attr_base(fx.D, ci, a['name'])
                self.attr_types[(cl['kl'], a['name'])] = ba['type'] if ba else None
        from .c15_callables import UDT_OF
        udt = getattr(c, 'udt', ())
        # a parameter value carries the declared data type of the parameter (a user data type is not unwrapped)
        self.param_types = dict((pn, UDT_OF[pt] if pn in udt else {'int': 'integer', 'str': 'string', 'bool': 'boolean', 'real': 'real'}[pt])
                                for pn, pt in c.params)

    def span(self, n):
        return node_span(self.p, self.pos, n)

    def run(self):
        self.block(self.c.body['block'])

    def block(self, blk, pre=None):
        self.nblocks += 1
        self.sc.push(block_key(self.p, self.pos, blk))
        if pre:
            pre()
        kids = blk['statement_list']['children']
        self.lists.append(kids)
        for s in kids:
            self.stmt(s)
        self.sc.pop()

    def cls_of(self, ty):
        if ty and ty.startswith('inst_ref<'):
            return ty[len('inst_ref<'):-1]
        if ty and ty.startswith('inst_ref_set<'):
            return ty[len('inst_ref_set<'):-1]
        return None

    @staticmethod
    def array_root(va):
        while va['t'] == 'IndexAccessNode':
            va = va['handle']
        return va

    def declare_if_new(self, name, ty):
        if self.sc.find(name) is None:
            d = self.sc.declare(name, ty)
            self.vars.append((name, d['block'], ty))

    def stmt(self, s):
        t = s['t']
        self.stmts.append((s, self.span(s)))
        if t == 'AssignmentNode':
            rty = self.expr(s['expression'])
            va = s['variable_access']
            if va['t'] == 'VariableAccessNode':
                new = self.sc.find(va['variable_name']) is None
                self.declare_if_new(va['variable_name'], rty)
                self.exprs.append((va, self.span(va), rty if new else self.sc.find(va['variable_name'])['ty']))
            elif va['t'] == 'IndexAccessNode' and self.array_root(va)['t'] == 'VariableAccessNode':
                root = self.array_root(va)
                self.declare_if_new(root['variable_name'], 'array')
                el = va
                while el['t'] == 'IndexAccessNode':          # m[1][2]: the element, m[1], then the variable itself
                    self.exprs.append((el, self.span(el), None))
                    self.expr(el['expression'])
                    el = el['handle']
                self.exprs.append((root, self.span(root), None))
            else:
                self.expr(va)
        elif t == 'ReturnNode':
            if s['expression'] is not None:
                self.expr(s['expression'])
        elif t == 'CreateObjectNode':
            self.declare_if_new(s['variable_name'], 'inst_ref<%s>' % s['key_letter'])
        elif t in ('SelectFromNode', 'SelectFromWhereNode'):
            many_ = s['cardinality'].lower() == 'many'
            if t == 'SelectFromWhereNode':
                self.expr(s['where_clause'], selected=s['key_letter'])
            self.declare_if_new(s['variable_name'], ('inst_ref_set<%s>' if many_ else 'inst_ref<%s>') % s['key_letter'])
        elif t in ('SelectRelatedNode', 'SelectRelatedWhereNode'):
            self.expr(s['handle'])
            steps = s['navigation_chain']['children']
            self.chains.append((s, steps))
            kl = steps[-1]['key_letter']
            many_ = s['cardinality'].lower() == 'many'
            self.declare_if_new(s['variable_name'], ('inst_ref_set<%s>' if many_ else 'inst_ref<%s>') % kl)
            if t == 'SelectRelatedWhereNode':
                self.expr(s['where_clause'], selected=kl)
        elif t == 'ForEachNode':
            setv = self.sc.find(s['set_variable_name'])
            kl = self.cls_of(setv['ty']) if setv else None
            self.declare_if_new(s['instance_variable_name'], 'inst_ref<%s>' % kl if kl else None)
            self.block(s['block'])
        elif t == 'WhileNode':
            self.expr(s['expression'])
            self.block(s['block'])
        elif t == 'IfNode':
            self.expr(s['expression'])
            self.block(s['block'])
            for ei in s['elif_list']['children']:
                self.expr(ei['expression'])
                self.block(ei['block'])
            if s['else_clause'] is not None:
                self.block(s['else_clause']['block'])
        elif t == 'InvocationStatementNode':
            self.expr(s['invocation'])
        elif t in ('GenerateInstanceEventNode', 'GenerateClassEventNode', 'GenerateCreatorEventNode',
                   'CreateInstanceEventNode', 'CreateClassEventNode', 'CreateCreatorEventNode'):
            # event data items are values chained like the parameters of an invocation; the receiving variable of
            # 'to <variable>' is referred to by name (no value of its own)
            items = s['event_specification']['event_data']['children']
            self.feats.add('event-statement')
            if len(items) >= 2:
                self.feats.add('event-data>=2')
            self.params.append(items)
            for it in items:
                self.expr(it['expression'])
            if t.startswith('Create'):
                self.declare_if_new(s['variable_name'], 'inst<Event>')
        elif t == 'GeneratePreexistingNode':
            self.expr(s['variable_access'])
        # break / continue / control / create-no-var / delete / relate / unrelate: no expressions, no declarations

    def expr(self, e, selected=None):
        t = e['t']
        ty = None
        if t == 'IntegerNode':
            ty = 'integer'
        elif t == 'RealNode':
            ty = 'real'
        elif t == 'StringNode':
            ty = 'string'
        elif t == 'BooleanNode':
            ty = 'boolean'
        elif t == 'EnumOrNamedConstantNode':
            if e['namespace'] == 'Color':
                ty = 'Color'
            else:
                ty = dict((n, tt) for n, tt, _v in (CONSTS2 if e['namespace'] == 'Sizes' else CONSTS)).get(e['name'])
        elif t == 'VariableAccessNode':
            d = self.sc.find(e['variable_name'])
            ty = d['ty'] if d and d['ty'] != 'array' else None
        elif t == 'SelfAccessNode':
            ty = 'inst_ref<%s>' % self.c.cls if self.c.cls and (self.c.kind in ('instop', 'derived') or (self.c.kind in ('state', 'txn') and SM_DEFS[self.c.sm[0]]['kind'] == 'ism')) else None
        elif t == 'SelectedAccessNode':
            ty = 'selected:%s' % selected if selected else None
        elif t == 'ParamAccessNode':
            ty = self.param_types.get(e['variable_name'])
        elif t == 'FieldAccessNode':
            hty = self.expr(e['handle'], selected)
            kl = hty.split(':', 1)[1] if hty and hty.startswith('selected:') else self.cls_of(hty)
            ty = self.attr_types.get((kl, e['name'])) if kl else None
        elif t == 'IndexAccessNode':
            self.expr(e['handle'], selected)
            self.expr(e['expression'], selected)
            ty = None
        elif t == 'UnaryOperationNode':
            oty = self.expr(e['operand'], selected)
            op = e['operator'].lower()
            if op in ('not', 'empty', 'not_empty'):
                ty = 'boolean'
            elif op == 'cardinality':
                ty = 'integer'
        elif t == 'BinaryOperationNode':
            lt = self.expr(e['left'], selected)
            rt = self.expr(e['right'], selected)
            op = e['operator'].lower()
            if op in ('<', '<=', '==', '!=', '>=', '>', 'and', 'or'):
                ty = 'boolean'
            elif lt is not None and lt == rt and lt in ('integer', 'real', 'string'):
                ty = lt
        elif t in ('FunctionInvocationNode', 'ImplicitInvocationNode', 'ClassInvocationNode', 'BridgeInvocationNode',
                   'InstanceInvocationNode'):
            if t == 'InstanceInvocationNode':
                self.expr(e['handle'], selected)
            ps = e['parameter_list']['children']
            self.params.append(ps)
            for pnode in ps:
                self.expr(pnode['expression'], selected)
        if ty is not None and ty.startswith('selected:'):
            rec = None
        else:
            rec = ty
        self.exprs.append((e, self.span(e), rec))
        return ty


def check_action(fx, c, info, res_classes):
    m = fx.m

    def fail(bucket, detail):
        raise Violation(bucket, info, '%s:%s: %s\n%s' % (c.kind, c.name, detail, fx.source[c.key]))
    home = fx.home(c)
    rel = {'function': ('ACT_FNB', 695), 'bridge': ('ACT_BRB', 697), 'classop': ('ACT_OPB', 696), 'instop': ('ACT_OPB', 696),
           'derived': ('ACT_DAB', 693), 'state': ('ACT_SAB', 691), 'txn': ('ACT_TAB', 688)}[c.kind]
    body = xtuml.navigate_one(home).nav(rel[0], rel[1])()
    act_act = one(body).ACT_ACT[698]()
    if act_act is None:
        fail('no-action-body', 'no ACT_ACT for the home')
    ex = Expect(fx, c)
    ex.run()
    blocks = many(act_act).ACT_BLK[601]()
    smts = []
    for b in blocks:
        for s in many(b).ACT_SMT[602]():
            if one(s).ACT_EL[603]() or one(s).ACT_E[603]():
                continue
            smts.append(s)
    by_pos = {}
    for s in smts:
        key = (s.LineNumber, s.StartPosition)
        if key in by_pos:
            fail('two-statements-at-one-position', repr(key))
        by_pos[key] = s
    smt_of = {}
    for node, sp in ex.stmts:
        s = by_pos.get((sp[0], sp[1]))
        if s is None:
            fail('statement-position:%s' % node['t'], 'no ACT_SMT at %d:%d for %s; recorded positions %r'
                 % (sp[0], sp[1], node['t'], sorted(by_pos)))
        if s.EndPosition != sp[3]:
            fail('statement-end-position', '%s at %d:%d ends at column %d, recorded %r' % (node['t'], sp[0], sp[1], sp[3], s.EndPosition))
        if s.Label != ex.text[sp[4]:sp[5]]:
            fail('statement-label', 'recorded %r, source %r' % (s.Label, ex.text[sp[4]:sp[5]]))
        smt_of[id(node)] = s
    if len(by_pos) != len(ex.stmts):
        fail('statement-count', '%d ACT_SMT, %d statements' % (len(by_pos), len(ex.stmts)))
    # (3) statement chaining as persisted
    for kids in ex.lists:
        prev = None
        for node in kids:
            s = smt_of[id(node)]
            got = s.Previous_Statement_ID
            want = prev.Statement_ID if prev is not None else None
            if (got or None) != want:
                where = 'first' if prev is None else 'inner'
                fail('previous-statement-reference:%s' % where, '%s at line %d: Previous_Statement_ID %r, expected %r'
                     % (node['t'], s.LineNumber, got, want))
            prev = s
    # (4) value positions + (6) typing
    vals = []
    for b in blocks:
        vals.extend(many(b).V_VAL[826]())
    by_span = {}
    for v in vals:
        key = (v.LineNumber, v.StartPosition, v.EndPosition)
        by_span.setdefault(key, []).append(v)
    want_spans = collections.Counter((sp[0], sp[1], sp[3]) for _n, sp, _t in ex.exprs)
    got_spans = collections.Counter(dict((k, len(v)) for k, v in by_span.items()))
    if want_spans != got_spans:
        missing = list((want_spans - got_spans).elements())[:3]
        extra = list((got_spans - want_spans).elements())[:3]
        kinds = sorted(set(n['t'] for n, sp, _t in ex.exprs if (sp[0], sp[1], sp[3]) in missing))
        fail('value-positions:%s' % '+'.join(kinds[:2]), 'no V_VAL at %r; V_VAL without expression at %r' % (missing, extra))
    typed = 0
    for node, sp, ty in ex.exprs:
        key = (sp[0], sp[1], sp[3])
        vs = by_span[key]
        if len(vs) != 1:
            continue
        v = vs[0]
        nsub = 0
        for k in subtype_classes(801, 'V_VAL'):
            nsub += len(xtuml.navigate_many(v).nav(k, 801)())
        if nsub != 1:
            fail('value-subtype-count', '%s V_VAL has %d subtypes' % (node['t'], nsub))
        if ty is None:
            continue
        s_dt = one(v).S_DT[820]()
        got = s_dt.Name if s_dt else None
        if got != ty:
            fail('value-type:%s' % node['t'] + (':' + node.get('operator', '') if node['t'].endswith('OperationNode') else ''),
                 '%r typed %r, expected %r' % (ex.text[sp[4]:sp[5]], got, ty))
        typed += 1
    for s in smts:
        nsub = 0
        for k in subtype_classes(603, 'ACT_SMT'):
            nsub += len(xtuml.navigate_many(s).nav(k, 603)())
        if nsub != 1:
            fail('statement-subtype-count', 'ACT_SMT at line %d has %d subtypes' % (s.LineNumber, nsub))
    # parameters
    for ps in ex.params:
        pars = []
        for pn in ps:
            sp = ex.span(pn['expression'])
            v = by_span[(sp[0], sp[1], sp[3])][0]
            par = one(v).V_PAR[800]()
            if par is None or par.Name != pn['name']:
                fail('parameter-missing', 'no V_PAR %s for value at %r' % (pn['name'], sp[:2]))
            pars.append(par)
        for k, par in enumerate(pars):
            want = pars[k + 1].Value_ID if k + 1 < len(pars) else None
            if (par.Next_Value_ID or None) != want:
                fail('next-parameter-reference', 'parameter %d (%s): Next_Value_ID %r, expected %r' % (k, par.Name, par.Next_Value_ID, want))
    # navigation chains
    for node, steps in ex.chains:
        s = smt_of[id(node)]
        act_sel = one(s).ACT_SEL[603]()
        lnk = one(act_sel).ACT_LNK[637]()
        seq = []
        seen = set()
        while lnk is not None and id(lnk) not in seen:
            seen.add(id(lnk))
            seq.append(lnk)
            nxt = lnk.Next_Link_ID
            lnk = m.select_any('ACT_LNK', xtuml.where_eq(Link_ID=nxt)) if nxt else None
        got = [(one(l).O_OBJ[678]().Key_Lett, 'R%d' % one(l).R_REL[681]().Numb, l.Rel_Phrase or '') for l in seq]
        want = [(st_['key_letter'], st_['rel_id'], st_.get('phrase') or '') for st_ in steps]
        if got != want:
            fail('navigation-chain', 'persisted chain %r, source %r' % (got, want))
    # (5) variables and their blocks / (6) variable types
    blk_key = {}
    for b in blocks:
        keys = sorted((s.LineNumber, s.StartPosition) for s in many(b).ACT_SMT[602]() if not (one(s).ACT_EL[603]() or one(s).ACT_E[603]()))
        blk_key[id(b)] = keys[0] if keys else None
    got_vars = collections.Counter()
    var_type = {}
    for b in blocks:
        for v in many(b).V_VAR[823]():
            if v.Name.lower() == 'self':
                continue
            got_vars[(v.Name, blk_key[id(b)])] += 1
            sd = one(v).S_DT[848]()
            var_type[(v.Name, blk_key[id(b)])] = sd.Name if sd else None
    want_vars = collections.Counter((n, b) for n, b, _t in ex.vars)
    if got_vars != want_vars:
        fail('variable-block', 'V_VAR per block %r, declared per scope %r' % (sorted((got_vars - want_vars).elements()),
                                                                                 sorted((want_vars - got_vars).elements())))
    for n, b, ty in ex.vars:
        if ty is None or ty == 'array':
            continue
        if var_type.get((n, b)) != ty:
            fail('variable-type', '%s typed %r, first assigned %r' % (n, var_type.get((n, b)), ty))
    return ex, typed


def run_case(case, res=None):
    try:
        fx = prebuildfix.Fixture(case['tape'], case['order'], case=case.get('kwcase'), texts=case.get('texts'), states=case.get('states'), style=case.get('style', 0))
    except Exception as e:
        raise Violation('fixture-exception:' + exc_bucket(e), case, repr(e))
    info = dict(case, bodies=fx.source)

    def fail(bucket, detail):
        raise Violation(bucket, info, detail)
    pre_a, pre_u = own_counts(fx.m)
    if pre_a or pre_u:
        from .build import HarnessError
        raise HarnessError('synthesised fixture is not consistent before prebuild: %r %r' % (pre_a[:2], pre_u[:2]))
    try:
        with TimeLimit(60):
            fx.prebuild()
    except TimeLimit.Expired:
        fail('prebuild-does-not-terminate', 'no return within 60 s')
    except Exception as e:
        fail('prebuild-exception:' + exc_bucket(e), repr(e))
    a, u = own_counts(fx.m)
    # V_EPR's identifier spans two alternative referentials (SMedi_ID of a state machine event data item, PP_Id of a
    # signal parameter): one of them is null in every instance - recorded as a known finding of its own, see DESIGN 9.2
    n_epr = len(fx.m.select_many('V_EPR'))
    u_epr = [x for x in u if x == 'V_EPR.PP_Id is null']
    u = [x for x in u if x != 'V_EPR.PP_Id is null']
    if len(u_epr) > n_epr:
        fail('uniqueness:V_EPR.PP_Id', '%d null PP_Id values on %d V_EPR instances' % (len(u_epr), n_epr))
    if a:
        fail('multiplicity:' + a[0].split(':')[0], '%d violations, e.g. %s' % (len(a), a[:3]))
    if u:
        fail('uniqueness:' + u[0].split(' ')[0], '%d violations, e.g. %s' % (len(u), u[:3]))
    if fx.m.is_consistent() != (not u_epr):
        fail('is-consistent-disagrees', 'harness counts %d violations, is_consistent() is %r' % (len(u_epr), fx.m.is_consistent()))
    for c in fx.callables:
        ex, typed = check_action(fx, c, info, None)
        if res is not None:
            multi = any(len(ps) >= 2 for ps in ex.params) or any(len(st_) >= 2 for _n, st_ in ex.chains)
            nt = ex.nblocks >= 2 and multi
            res.case(fx.source[c.key], nt,
                     sample={'home': c.key, 'text': ex.text, 'typed_values': typed} if nt and len(ex.text) < 1200 else None,
                     classes=['home-' + c.kind, 'blocks-%d' % min(ex.nblocks, 4)] + ['f:' + f for f in sorted(ex.feats)])
    if u_epr:
        raise Violation('uniqueness:V_EPR-alternative-identifier-null', info,
                        'a state / transition action reads event data (param.x / rcvd_evt.x): the V_EPR instance has PP_Id null, '
                        'which check_uniqueness_constraint counts (%d)' % len(u_epr))


def run(ctx):
    res = Res()

    def body(case):
        try:
            run_case(case, res)
        except Violation:
            raise
        except Exception as e:
            raise Violation('harness-exception:' + exc_bucket(e), case, repr(e))

    hyp_run(ctx, res, cases(), body, ctx.pick(100, 600), label='fixtures')
    return res


def replay(case):
    run_case(case)
