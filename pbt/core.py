"""Shared result/violation plumbing, Hypothesis driver and shard runner."""
import collections
import hashlib
import json
import os
import time
import traceback

from . import build


class Violation(Exception):
    """Raised by an oracle.  bucket = root-cause fingerprint."""

    def __init__(self, bucket, case, detail, fatal=False):
        Exception.__init__(self, '%s: %s' % (bucket, detail))
        self.bucket = bucket
        self.case = case
        self.detail = detail
        # fatal: every further case would cost a time-out too; record, do not shrink, stop
        self.fatal = fatal or 'does-not-terminate' in bucket or 'timeout' in bucket


class _Stop(BaseException):
    pass


def jsonable(x, depth=0):
    if depth > 12:
        return repr(x)
    if isinstance(x, (str, int, bool)) or x is None:
        return x
    if isinstance(x, float):
        return x if x == x and abs(x) != float('inf') else repr(x)
    if isinstance(x, dict):
        return {str(k) if not isinstance(k, str) else k: jsonable(v, depth + 1)
                for k, v in x.items()}
    if isinstance(x, (list, tuple)):
        return [jsonable(v, depth + 1) for v in x]
    if isinstance(x, (set, frozenset)):
        return sorted((jsonable(v, depth + 1) for v in x), key=repr)
    if isinstance(x, bytes):
        return {'__bytes__': x.hex()}
    return repr(x)


def sha(x):
    return hashlib.sha1(json.dumps(jsonable(x), sort_keys=True,
                                   ensure_ascii=True).encode()).hexdigest()


def exc_bucket(e):
    """(exception type, innermost frame inside xtuml/ or bridgepoint/)."""
    tb = traceback.extract_tb(e.__traceback__)
    where = 'harness'
    for fr in reversed(tb):
        fn = fr.filename.replace('\\', '/')
        for pkg in ('/xtuml/', '/bridgepoint/'):
            if pkg in fn:
                where = '%s%s:%s' % (pkg.strip('/') + '/',
                                     fn.split(pkg)[-1], fr.name)
                break
        if where != 'harness':
            break
    return '%s@%s' % (type(e).__name__, where)


class Ctx(object):
    def __init__(self, prop, tier, seed, shard=0, nshards=1, excluded=()):
        self.prop = prop
        self.tier = tier
        self.seed = seed
        self.shard = shard
        self.nshards = nshards
        self.excluded = set(excluded)   # buckets skipped by construction
        self.t0 = time.time()

    @property
    def quick(self):
        return self.tier == 'quick'

    def derive(self, k=0):
        return (self.seed * 1000003 + self.shard * 1009 + k) % (2 ** 63)

    def pick(self, quick, thorough):
        return quick if self.quick else thorough


class Res(object):
    """Mergeable per-shard result."""
    MAX_SAMPLES = 6
    MAX_HASHES = 400000

    def __init__(self):
        self.evaluations = 0
        self.nontrivial = set()
        self.nontrivial_overflow = 0
        self.samples = []
        self.classes = collections.Counter()
        self.discarded = collections.Counter()
        self.excluded = collections.Counter()
        self.violations = []      # dicts: bucket, case, detail
        self.exhaustive_parts = []
        self.notes = []
        self.exhaustive = False

    def case(self, canon, nontrivial, sample=None, classes=()):
        """Record one executed case."""
        self.evaluations += 1
        for c in classes:
            self.classes[c] += 1
        if nontrivial:
            self.classes['nontrivial'] += 1
            if len(self.nontrivial) < self.MAX_HASHES:
                self.nontrivial.add(canon if isinstance(canon, str) and len(canon) == 40
                                    else sha(canon))
            else:
                self.nontrivial_overflow += 1
            if sample is not None and len(self.samples) < self.MAX_SAMPLES:
                self.samples.append(clip(sample))

    def violation(self, v):
        for old in self.violations:
            if old['bucket'] == v.bucket:
                return
        self.violations.append({'bucket': v.bucket, 'case': jsonable(v.case),
                                'detail': clip(v.detail, 4000)})

    def merge(self, other):
        self.evaluations += other.evaluations
        self.nontrivial |= other.nontrivial
        self.nontrivial_overflow += other.nontrivial_overflow
        for s in other.samples:
            if len(self.samples) < self.MAX_SAMPLES:
                self.samples.append(s)
        self.classes.update(other.classes)
        self.discarded.update(other.discarded)
        self.excluded.update(other.excluded)
        for v in other.violations:
            if v['bucket'] not in [o['bucket'] for o in self.violations]:
                self.violations.append(v)
        for p in other.exhaustive_parts:
            if p not in self.exhaustive_parts:
                self.exhaustive_parts.append(p)
        for n in other.notes:
            if n not in self.notes:
                self.notes.append(n)
        return self


def clip(x, n=2000):
    x = jsonable(x)
    s = x if isinstance(x, str) else json.dumps(x, ensure_ascii=True, sort_keys=True)
    if len(s) <= n:
        return x
    return s[:n] + '...[%d more chars]' % (len(s) - n)


# ---------------------------------------------------------------------------
# Hypothesis driver with collect-then-bucket (DESIGN.md 1.5)

def hyp_run(ctx, res, strategy, body, max_examples, label='', max_buckets=None,
            shrink_budget_s=None, stateful_steps=None):
    """Run `body(case)` over `strategy`.

    body raises Violation on an oracle failure.  Each failing bucket is shrunk,
    recorded, then excluded (cases hitting it are counted in res.excluded and
    pass), and the search continues with the next derived seed.
    """
    import hypothesis
    import warnings
    from hypothesis import given, settings, seed, HealthCheck, Phase
    warnings.filterwarnings('ignore', category=hypothesis.errors.HypothesisWarning)

    if max_buckets is None:
        max_buckets = ctx.pick(3, 12)
    if shrink_budget_s is None:
        shrink_budget_s = ctx.pick(25, 180)
    found = []
    excluded = set(ctx.excluded)
    for attempt in range(max_buckets + 1):
        state = {'bucket': None, 't_first': None, 'failing': set(), 'shrinking': False}
        budget = max_examples if attempt == 0 else max(max_examples // 2, 50)

        def test(case):
            key = None
            if state['t_first'] is not None and time.time() - state['t_first'] > shrink_budget_s:
                # shrink budget used up: only cases already known to fail are executed again (Hypothesis
                # re-runs its best example at the end); everything else passes without being run
                key = sha(case)
                if key not in state['failing']:
                    return
            try:
                body(case)
            except Violation as v:
                if v.bucket in excluded:
                    res.excluded[v.bucket] += 1
                    return
                if v.fatal:
                    res.violation(v)
                    raise _Stop()
                if state['bucket'] is None:
                    state['bucket'] = v.bucket
                    state['t_first'] = time.time()
                if v.bucket != state['bucket']:
                    return      # stay on one root cause while shrinking
                state['failing'].add(key or sha(case))
                raise

        test.__name__ = 'check_%s_%s' % (ctx.prop, ''.join(ch if ch.isalnum() else '_' for ch in (label or 'case')))
        wrapped = given(strategy)(test)
        wrapped = seed(ctx.derive(attempt * 7919 + _label_num(label)))(wrapped)
        wrapped = settings(max_examples=budget, database=None, deadline=None,
                           derandomize=False, report_multiple_bugs=False,
                           print_blob=False,
                           suppress_health_check=[HealthCheck.too_slow,
                                                  HealthCheck.data_too_large,
                                                  HealthCheck.large_base_example],
                           phases=(Phase.generate, Phase.shrink))(wrapped)
        try:
            wrapped()
        except _Stop:
            break
        except Violation as v:
            res.violation(v)
            found.append(v.bucket)
            excluded.add(v.bucket)
            continue
        except hypothesis.errors.FailedHealthCheck as e:
            raise build.HarnessError('hypothesis health check: %s' % e)
        except hypothesis.errors.Flaky as e:
            # The same generated case failed once and passed when re-executed.  Every oracle here is a pure
            # function of the case and the harness keeps no state between cases (checked on the unchanged tree
            # over many seeds), so the code under test remembers something from an earlier call: reported as a
            # violation of its own kind; the replay file documents the case that did not reproduce.
            res.violation(Violation('history-dependent-result:%s' % (label or 'case'), {'flaky': str(e)[:1500]},
                                    'a case failed and then passed when executed again: the code under test keeps '
                                    'state between calls (%s)' % str(e)[:600]))
            break
        break
    return found


def _label_num(label):
    return int(hashlib.sha1(label.encode()).hexdigest()[:6], 16) if label else 0


def loop_run(ctx, res, cases, body, max_buckets=None):
    """Run body(case) for enumerated cases; first failure per bucket is kept
    (enumerations go small-to-large, so it is near-minimal)."""
    excluded = set(ctx.excluded)
    seen = set()
    for case in cases:
        try:
            body(case)
        except Violation as v:
            if v.bucket in excluded:
                res.excluded[v.bucket] += 1
                continue
            if v.bucket in seen:
                res.excluded['(repeat) ' + v.bucket] += 1
                continue
            seen.add(v.bucket)
            res.violation(v)
            if v.fatal:
                break
            if max_buckets and len(seen) >= max_buckets:
                break


# ---------------------------------------------------------------------------
# 16-way sharding (fork after build so that workers share the PLY tables)

def _shard_entry(args):
    modname, prop, tier, seed, shard, nshards, excluded = args
    import importlib
    mod = importlib.import_module(modname)
    ctx = Ctx(prop, tier, seed, shard, nshards, excluded)
    try:
        return ('ok', mod.run(ctx))
    except build.HarnessError as e:
        return ('harness', str(e))
    except Exception:
        return ('harness', traceback.format_exc())


def run_sharded(mod, ctx, nshards):
    import multiprocessing
    if nshards <= 1:
        return mod.run(ctx)
    mp = multiprocessing.get_context('fork')
    args = [(mod.__name__, ctx.prop, ctx.tier, ctx.seed, i, nshards,
             sorted(ctx.excluded)) for i in range(nshards)]
    with mp.Pool(min(nshards, os.cpu_count() or 1)) as pool:
        outs = pool.map(_shard_entry, args, chunksize=1)
    res = Res()
    for kind, val in outs:
        if kind != 'ok':
            raise build.HarnessError('shard failed: %s' % val)
        res.merge(val)
    return res


class TimeLimit(object):
    """SIGALRM guard for calls that must return in bounded time."""

    class Expired(Exception):
        pass

    def __init__(self, seconds):
        self.seconds = seconds

    def _handler(self, signum, frame):
        raise TimeLimit.Expired()

    def __enter__(self):
        import signal
        self.old = signal.signal(signal.SIGALRM, self._handler)
        # the timer keeps firing every half second after the limit: an Expired raised inside a garbage collector
        # callback or a __del__ is swallowed by the interpreter ("Exception ignored in ...") and must come again
        signal.setitimer(signal.ITIMER_REAL, self.seconds, 0.5)
        return self

    def __exit__(self, *a):
        import signal
        signal.setitimer(signal.ITIMER_REAL, 0)
        signal.signal(signal.SIGALRM, self.old)
        return False
