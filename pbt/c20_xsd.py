"""C20 - XSD generation mirrors the component's classes and data types."""
import os
import xml.etree.ElementTree as ET

from hypothesis import strategies as st

import xtuml
from bridgepoint import ooaofooa, gen_xsd_schema
from . import bpmodel, bpgen, build, oalsyn, c14_component
from .core import Violation, hyp_run, Res, exc_bucket, sha

PROPERTY = 'C20'
RULE = ('Hypothesis: the abstract class diagrams of C14 (synthesised, and the one lifted from the shipped '
        'Simple_Model.xtuml) after 0-6 drawn edits (rename / retype / add attribute, add / reorder enumerators, add '
        'user types, move classes between components and packages, add derived and unsupported-type attributes), rows '
        'written in a drawn order. Oracle computed from the diagram: the output of build_schema (and of the file '
        'written by gen_xsd_schema.main) must be well-formed XML declaring exactly one xs:element per class contained '
        'in the component with exactly one xs:attribute per non-derived attribute of a supported type, named as modelled '
        'and typed by the base type of the (referred) attribute after unwrapping user types, and one xs:simpleType per '
        'supported core type, enumeration (enumerators in modelled order) and user type with a supported base among '
        'global types and types contained in the component - nothing else. non-trivial = >= 2 classes in the '
        'component, a referential attribute, an enumeration and a class or type outside the component; distinct = by case.')
ASSUMPTIONS = [
    'simple types for predefined non-supported global types (void, date, timestamp, inst_ref<...>) are neither demanded nor forbidden',
    'attribute order inside an element is not compared',
    'the data types in scope of a component have distinct names (two types of one name in different packages give two simple types of one name on the pinned tree - not a schema any processor accepts; what should be declared there is not stated)',
]

XS = '{http://www.w3.org/2001/XMLSchema}'
CORE_XSD = {'boolean': 'xs:boolean', 'integer': 'xs:integer', 'real': 'xs:decimal', 'string': 'xs:string', 'unique_id': 'xs:integer'}


def xsd_type_of(D, ci, aname):
    """expected xs:attribute type name, or None when the attribute must be omitted"""
    a = bpmodel.attr_of(D, ci, aname)
    if a.get('derived') is not None:
        return None
    bc, ba = bpmodel.attr_base(D, ci, aname)
    if ba is None:
        return None
    return unwrap(D, ba['type'])


def unwrap(D, name, depth=0):
    if name in bpmodel.SUPPORTED_CORE:
        return name
    if name in bpmodel.CORE:
        return None
    if name in bpmodel.GLOBAL_UDT:
        base = bpmodel.global_udt_base(name)
        return unwrap(D, base, depth + 1) if base and depth < 10 else None
    t = bpmodel.find_type(D, name)
    if t is None or depth > 10:
        return None
    if t['kind'] == 'enum':
        return t['name']
    if t['kind'] == 'sdt':
        return None                      # a structured type has no simple XSD type
    return unwrap(D, t['base'], depth + 1)


def type_name_of(D, name):
    """gen_xsd's notion of a nameable type: supported core, enumeration or user type"""
    if name in bpmodel.SUPPORTED_CORE:
        return name
    if name in bpmodel.CORE:
        return None
    if name in bpmodel.GLOBAL_UDT:
        return name
    t = bpmodel.find_type(D, name)
    if t is not None and t['kind'] != 'sdt':
        return name
    return None


def expected(D, comp=0):
    root = ['comp', comp]
    elements = {}
    for ci, c in enumerate(D['classes']):
        if not bpmodel.contained_in(D, c['parent'], root):
            continue
        attrs = {}
        for a in c['attrs']:
            ty = xsd_type_of(D, ci, a['name'])
            if ty is not None:
                attrs[a['name']] = ty
        elements[c['kl']] = attrs
    types = {}
    for n in bpmodel.SUPPORTED_CORE:
        types[n] = ('restriction', CORE_XSD[n])
    for t in D['types']:
        if not (bpmodel.is_global(D, t['parent']) or bpmodel.contained_in(D, t['parent'], root)):
            continue
        if t['kind'] == 'enum':
            types[t['name']] = ('enum', list(t['enumerators']))
        elif t['kind'] == 'sdt':
            continue
        else:
            base = type_name_of(D, t['base'])
            if base is not None:
                types[t['name']] = ('restriction', base)
    return {'component': D['components'][comp]['name'], 'elements': elements, 'types': types}


IGNORABLE = set(['void', 'date', 'timestamp', 'inst_ref<Timer>', 'state<State_Model>', 'same_as<Base_Attribute>',
                 'inst_ref<Object>', 'inst_ref_set<Object>', 'inst<Event>', 'inst<Mapping>', 'inst_ref<Mapping>', 'component_ref'])


def read_schema(root, case):
    def fail(bucket, detail):
        raise Violation(bucket, case, detail)
    if root.tag != XS + 'schema':
        fail('root-not-schema', root.tag)
    types = {}
    comps = []
    for ch in root:
        if ch.tag == XS + 'simpleType':
            name = ch.get('name')
            if name in types:
                fail('duplicate-simple-type', name)
            r = ch.find(XS + 'restriction')
            enums = [e.get('value') for e in r.findall(XS + 'enumeration')] if r is not None else []
            if r is not None and r.get('base') == 'xs:string' and (enums or name not in ('string',)):
                types[name] = ('enum', enums) if enums or name != 'string' else ('restriction', 'xs:string')
            else:
                types[name] = ('restriction', r.get('base') if r is not None else None)
        elif ch.tag == XS + 'element':
            comps.append(ch)
        else:
            fail('unexpected-top-level-node', ch.tag)
    if len(comps) != 1:
        fail('component-element-count', '%d component elements' % len(comps))
    comp = comps[0]
    elements = {}
    seq = comp.find(XS + 'complexType/' + XS + 'sequence')
    for el in (list(seq) if seq is not None else []):
        name = el.get('name')
        if name in elements:
            fail('duplicate-class-element', name)
        attrs = {}
        for a in el.findall(XS + 'complexType/' + XS + 'attribute'):
            if a.get('name') in attrs:
                fail('duplicate-attribute', '%s.%s' % (name, a.get('name')))
            attrs[a.get('name')] = a.get('type')
        elements[name] = attrs
    return {'component': comp.get('name'), 'elements': elements, 'types': types}


def run_case(case, res=None):
    D, log = c14_component.make_diagram(case)
    if case.get('derive_id') is not None and D['classes']:
        # the identifying attribute of one class is a derived one: it is declared nowhere itself, but what refers to it is
        # an ordinary (referential) attribute typed by its data type
        c = D['classes'][case['derive_id'] % len(D['classes'])]
        a = c['attrs'][0]
        if not a.get('ref') and a.get('derived') is None and unwrap(D, a['type']) is not None:
            a['derived'] = 'self.%s = 1;' % a['name']
            log = list(log) + ['identifying attribute %s.%s made derived' % (c['kl'], a['name'])]
    if case.get('ensure') and case.get('base') != 'simple_model':
        # the scope clauses need something to decide on: an enumeration inside the component, a user type in another one
        log = list(log)
        if not any(t_['kind'] == 'enum' for t_ in D['types']):
            D['types'].append({'name': 'EnumZ', 'kind': 'enum', 'parent': ['pkg', 1], 'enumerators': ['Z_b', 'Z_a', 'Z_c']})
            log.append('enumeration EnumZ added inside the component')
        if not any(not (bpmodel.is_global(D, t_['parent']) or bpmodel.contained_in(D, t_['parent'], ['comp', 0])) for t_ in D['types']):
            D['components'].append({'name': 'Elsewhere', 'parent': ['pkg', 0]})
            D['types'].append({'name': 'UdtElse', 'kind': 'udt', 'base': 'integer', 'parent': ['comp', len(D['components']) - 1]})
            log.append('user type UdtElse added in another component')
        if D['classes'] and not any(a.get('type') == 'UdtB' for c_ in D['classes'] for a in c_['attrs']):
            # a user type over a user type over a core type: the attribute is declared with the core type at the end of the chain
            D['types'].append({'name': 'UdtA', 'kind': 'udt', 'base': 'real', 'parent': ['pkg', 1]})
            D['types'].append({'name': 'UdtB', 'kind': 'udt', 'base': 'UdtA', 'parent': ['pkg', 1]})
            D['classes'][-1]['attrs'].append({'name': 'Zq_chain', 'type': 'UdtB'})
            log.append('attribute of a two-level user type added to %s' % D['classes'][-1]['kl'])
        if case.get('ensure') == 2 and D['classes']:
            # a structured data type and a user type based on it: attributes typed by them are of no supported type
            D['types'].append({'name': 'Struct1', 'kind': 'sdt', 'parent': ['pkg', 1]})
            D['types'].append({'name': 'UdtS', 'kind': 'udt', 'base': 'Struct1', 'parent': ['pkg', 1]})
            c0 = D['classes'][0]
            c0['attrs'].append({'name': 'Zq_struct', 'type': 'Struct1'})
            c0['attrs'].append({'name': 'Zq_ustruct', 'type': 'UdtS'})
            log.append('attributes of a structured type and of a user type over it added to %s' % c0['kl'])
    info = dict(case, edits_applied=log)

    def fail(bucket, detail):
        raise Violation(bucket, info, detail)
    rows, _ix = bpmodel.to_rows(D)
    if case.get('detach') is not None:
        # an attribute put in without a predecessor (R103 is conditional at both ends): the class still has it across R102,
        # so it is declared like the others - the order of declarations is not stated
        later = [v for tb, v in rows if tb == 'O_ATTR' and v['PAttr_ID']]
        if later:
            later[case['detach'] % len(later)]['PAttr_ID'] = 0
            info['edits_applied'] = list(log) + ['one attribute detached from its predecessor (R103)']
    rows = c14_component.shuffle(rows, case['order'])
    text = bpmodel.render(rows)
    comp_name = D['components'][0]['name']
    path = None
    try:
        if case.get('via_main'):
            path = os.path.join(build.tmpdir(), 'c20-%d-%s.xtuml' % (os.getpid(), sha(case)[:8]))
            with open(path, 'w') as f:
                f.write(text)
            out = path + '.xsd'
            gen_xsd_schema.main(['-c', comp_name, '-o', out, path])
            xml_text = open(out).read()
            os.unlink(out)
        else:
            l = ooaofooa.ModelLoader()
            l.input(text)
            m = l.build_metamodel()
            c_c = m.select_any('C_C', xtuml.where_eq(Name=comp_name))
            xml_text = ET.tostring(gen_xsd_schema.build_schema(m, c_c), 'utf-8')
    except SystemExit as e:
        fail('main-exited', repr(e))
    except Exception as e:
        fail('generation-exception:' + exc_bucket(e), '%r (edits %r)' % (e, log))
    finally:
        if path and os.path.exists(path):
            os.unlink(path)
    try:
        root = ET.fromstring(xml_text)
    except ET.ParseError as e:
        fail('not-well-formed', repr(e))
    got = read_schema(root, info)
    want = expected(D)
    if got['component'] != want['component']:
        fail('component-name', '%r vs %r' % (got['component'], want['component']))
    if sorted(got['elements']) != sorted(want['elements']):
        fail('class-elements', 'declared %r, modelled in component %r' % (sorted(got['elements']), sorted(want['elements'])))
    for k in want['elements']:
        g, w = got['elements'][k], want['elements'][k]
        if sorted(g) != sorted(w):
            fail('attribute-set', '%s: declared %r, modelled %r' % (k, sorted(g), sorted(w)))
        for an in w:
            if g[an] != w[an]:
                fail('attribute-type', '%s.%s: declared %r, modelled %r' % (k, an, g[an], w[an]))
    gt = dict((k, v) for k, v in got['types'].items() if k not in IGNORABLE)
    if sorted(gt) != sorted(want['types']):
        fail('simple-type-set', 'declared %r, in scope %r' % (sorted(gt), sorted(want['types'])))
    for k, w in want['types'].items():
        g = gt[k]
        if w[0] == 'enum':
            if g != ('enum', w[1]):
                fail('enumerators', '%s: declared %r, modelled %r' % (k, g, w[1]))
        elif g != w:
            fail('simple-type-base', '%s: declared %r, modelled %r' % (k, g, w))
    if res is not None:
        inside = [c for c in D['classes'] if bpmodel.contained_in(D, c['parent'], ['comp', 0])]
        nt = len(inside) >= 2 and any(a.get('ref') for c in inside for a in c['attrs']) and \
            any(t['kind'] == 'enum' for t in D['types']) and (len(inside) < len(D['classes']) or any(
                not (bpmodel.is_global(D, t['parent']) or bpmodel.contained_in(D, t['parent'], ['comp', 0])) for t in D['types']))
        res.case([D, case['order']], nt, sample={'edits': log, 'expected': want} if nt and len(repr(want)) < 1700 else None,
                 classes=['base-' + case['base']] + (['via-main'] if case.get('via_main') else []) + (['edited'] if log else []))


def selftest():
    D = c14_component.simple_model_diagram()
    w = expected(D)
    assert sorted(w['elements']) == ['Assoc_Class', 'Class', 'Reflexive_Class', 'Subtype', 'Supertype']
    assert w['elements']['Assoc_Class'] == {'Other_Id': 'unique_id', 'One_Id': 'unique_id'}
    assert w['types']['My_Enum'] == ('enum', ['E1', 'E2']) and w['types']['My_Integer'] == ('restriction', 'integer')


def run(ctx):
    res = Res()

    def body(case):
        try:
            run_case(case, res)
        except Violation:
            raise
        except Exception as e:
            raise Violation('harness-exception:' + exc_bucket(e), case, repr(e))

    strat = st.fixed_dictionaries({'tape': oalsyn.tapes(300, 40), 'edits': oalsyn.tapes(60, 0),
                                   'order': st.lists(st.integers(0, 10 ** 6), min_size=0, max_size=8),
                                   'via_main': st.integers(0, 5).map(lambda k: k == 0),
                                   'base': st.sampled_from(['synth', 'synth', 'synth', 'simple_model']),
                                   'derive_id': st.one_of(st.none(), st.none(), st.integers(0, 9)),
                                   'ensure': st.sampled_from([0, 1, 2]),
                                   'detach': st.one_of(st.none(), st.none(), st.integers(0, 9))})
    hyp_run(ctx, res, strat, body, ctx.pick(400, 2500), label='diagrams')
    return res


def replay(case):
    run_case(case)
