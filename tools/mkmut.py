#!/usr/bin/env python3
"""tools/mkmut.py <name> <repo-relative file> <old> <new> : writes mutants/<name>.diff (unified, -p1)."""
import difflib, sys, os
name, rel, old, new = sys.argv[1:5]
src = open(os.path.join(os.environ.get('VERIF_REPO', '/repo'), rel)).read()
old = old.encode().decode('unicode_escape'); new = new.encode().decode('unicode_escape')
if src.count(old) != 1:
    sys.exit('pattern occurs %d times' % src.count(old))
dst = src.replace(old, new)
d = difflib.unified_diff(src.splitlines(True), dst.splitlines(True), 'a/' + rel, 'b/' + rel)
open(os.path.join(os.path.dirname(os.path.dirname(os.path.abspath(__file__))), 'mutants', name + '.diff'), 'w').write(''.join(d))
print('wrote', name)
