"""BridgePoint (ooaofooa) model synthesiser (DESIGN.md 2.5).

An abstract diagram D (plain JSON) is turned into the rows of the ooaofooa classes with the harness's
own id allocation and rendered as .xtuml text; D stays the ground truth from which expectations
(component extraction C14, XSD C20, callables C15, prebuild fixtures C05/C06) are computed.
`lift()` reads rows written by BridgePoint (e.g. tests' Simple_Model.xtuml) back into a D.

D = {'packages': [{'name', 'parent': None | ['pkg', i] | ['comp', i]}],
     'components': [{'name', 'parent': ['pkg', i]}],
     'types': [{'name', 'kind': 'enum'|'udt', 'enumerators': [..] | 'base': type name, 'parent': [...]}],
     'classes': [{'name', 'kl', 'numb', 'parent': [...],
                  'attrs': [{'name', 'type': type name} | {'name', 'ref': True} | {'name','type','derived': text}],
                  'ids': [[attr names], ...],           # identifier k = O_ID k
                  'ops': [{'name', 'instance', 'ret', 'params': [[n, type]], 'body'}]}],
     'rels': [{'numb', 'kind': 'simple', 'part': cls, 'form': cls, 'part_mult','part_cond','part_phrase',
               'form_mult','form_cond','form_phrase', 'oid': 0, 'refs': [attr names in form class]} |
              {'numb', 'kind': 'linked', 'one': cls, 'oth': cls, 'link': cls, 'one_*', 'oth_*', 'link_mult',
               'one_oid', 'oth_oid', 'one_refs': [...], 'oth_refs': [...]} |
              {'numb', 'kind': 'subsuper', 'super': cls, 'subs': [{'cls', 'refs': [...]}], 'oid': 0}],
     'functions': [{'name', 'ret', 'params', 'body', 'parent'}],
     'ees': [{'name', 'kl', 'parent', 'bridges': [{'name', 'ret', 'params', 'body'}]}],
     'constants': [{'name' (spec), 'parent', 'items': [{'name', 'type', 'value'}]}]}
Classes are referred to by index.
"""
import uuid

CORE = {'void': 0, 'boolean': 1, 'integer': 2, 'real': 3, 'string': 4, 'unique_id': 5, 'state<State_Model>': 6,
        'same_as<Base_Attribute>': 7, 'inst_ref<Object>': 8, 'inst_ref_set<Object>': 9, 'inst<Event>': 10,
        'inst<Mapping>': 11, 'inst_ref<Mapping>': 12, 'component_ref': 13}
GLOBAL_UDT = {'date': 0xe, 'inst_ref<Timer>': 0xf, 'timestamp': 0x10}
SUPPORTED_CORE = ('boolean', 'integer', 'real', 'string', 'unique_id')
GID = 0xba5eda7adef500000000000000000000


def core_id(name):
    if name in CORE:
        return GID + CORE[name]
    return GID + GLOBAL_UDT[name]


class Rows(object):
    def __init__(self, base=0x1000):
        self.rows = []
        self.next = base

    def id(self):
        self.next += 1
        return self.next

    def add(self, table, **vals):
        self.rows.append([table, vals])
        return vals


def to_rows(D, base=0x1000):
    """-> (list of [table, {attr: value}], index dict with the allocated ids)"""
    R = Rows(base)
    ix = {'pkg': [], 'comp': [], 'type': {}, 'cls': [], 'attr': {}, 'rel': {}, 'fn': {}, 'ee': {}, 'brg': {}, 'op': {}}
    SYS = 0x5151

    def parent_ids(parent):
        if parent is None:
            return 0, 0
        kind, i = parent
        return (ix['pkg'][i], 0) if kind == 'pkg' else (0, ix['comp'][i])

    def pe(eid, parent, ty):
        pk, co = parent_ids(parent)
        R.add('PE_PE', Element_ID=eid, Visibility=1, Package_ID=pk, Component_ID=co, type=ty)

    # containers: packages and components may nest in any declared order -> allocate ids first
    for p in D['packages']:
        ix['pkg'].append(R.id())
    for c in D['components']:
        ix['comp'].append(R.id())
    R.add('S_SYS', Sys_ID=SYS, Name=D.get('system', 'Sys'), useGlobals=True)
    for i, p in enumerate(D['packages']):
        R.add('EP_PKG', Package_ID=ix['pkg'][i], Sys_ID=SYS if p['parent'] is None else 0, Direct_Sys_ID=SYS,
              Name=p['name'], Descrip='', Num_Rng=0)
        pe(ix['pkg'][i], p['parent'], 7)
    for i, c in enumerate(D['components']):
        R.add('C_C', Id=ix['comp'][i], Package_ID=0, NestedComponent_Id=0, Name=c['name'], Descrip='', Mult=0,
              Root_Package_ID=0, isRealized=False, Realized_Class_Path='', Key_Lett='')
        pe(ix['comp'][i], c['parent'], 2)

    def type_id(name):
        if name in ix['type']:
            return ix['type'][name]
        return core_id(name)

    for t in D['types']:
        ix['type'][t['name']] = R.id()
    for t in D['types']:
        tid = ix['type'][t['name']]
        R.add('S_DT', DT_ID=tid, Dom_ID=0, Name=t['name'], Descrip='', DefaultValue='')
        pe(tid, t['parent'], 3)
        if t['kind'] == 'sdt':
            # structured data type with two members
            R.add('S_SDT', DT_ID=tid)
            prev = 0
            for mn, mt in (('x', 'integer'), ('label', 'string')):
                mid = R.id()
                R.add('S_MBR', Member_ID=mid, Name=mn, Descrip='', Parent_DT_DT_ID=tid, DT_ID=core_id(mt), Previous_Member_ID=prev, Dimensions='')
                prev = mid
        elif t['kind'] == 'enum':
            R.add('S_EDT', DT_ID=tid)
            prev = 0
            for en in t['enumerators']:
                eid = R.id()
                R.add('S_ENUM', Enum_ID=eid, Name=en, Descrip='', EDT_DT_ID=tid, Previous_Enum_ID=prev)
                prev = eid
        else:
            R.add('S_UDT', DT_ID=tid, CDT_DT_ID=type_id(t['base']), Gen_Type=0, Definition='')

    # classes and attributes
    for ci, c in enumerate(D['classes']):
        oid = R.id()
        ix['cls'].append(oid)
    for ci, c in enumerate(D['classes']):
        oid = ix['cls'][ci]
        R.add('O_OBJ', Obj_ID=oid, Name=c['name'], Numb=c.get('numb', ci + 1), Key_Lett=c['kl'], Descrip='', SS_ID=0)
        pe(oid, c['parent'], 4)
        prev = 0
        for a in c['attrs']:
            aid = R.id()
            ix['attr'][(ci, a['name'])] = aid
            a_row = R.add('O_ATTR', Attr_ID=aid, Obj_ID=oid, PAttr_ID=prev, Name=a['name'], Descrip='', Prefix='',
                          Root_Nam=a['name'], Pfx_Mode=0,
                          DT_ID=core_id('same_as<Base_Attribute>') if a.get('ref') else type_id(a['type']),
                          Dimensions='', DefaultValue='')
            prev = aid
            if not a.get('ref'):
                R.add('O_BATTR', Attr_ID=aid, Obj_ID=oid)
                if a.get('derived') is not None:
                    R.add('O_DBATTR', Attr_ID=aid, Obj_ID=oid, Action_Semantics_internal=a['derived'], Suc_Pars=1, Dialect=0)
                else:
                    R.add('O_NBATTR', Attr_ID=aid, Obj_ID=oid)
        for k in range(max(3, len(c['ids']))):
            R.add('O_ID', Oid_ID=k, Obj_ID=oid)
        for k, names in enumerate(c['ids']):
            for n in names:
                R.add('O_OIDA', Attr_ID=ix['attr'][(ci, n)], Obj_ID=oid, Oid_ID=k, localAttributeName=n)
        prevop = 0
        for o in c.get('ops', []):
            tid = R.id()
            ix['op'][(ci, o['name'])] = tid
            R.add('O_TFR', Tfr_ID=tid, Obj_ID=oid, Name=o['name'], Descrip='', DT_ID=type_id(o['ret']),
                  Instance_Based=1 if o['instance'] else 0, Action_Semantics_internal=o['body'], Suc_Pars=1,
                  Return_Dimensions='', Previous_Tfr_ID=prevop, Dialect=0, Numb=0)
            prevop = tid
            pp = 0
            for pn, pt in o['params']:
                pid = R.id()
                R.add('O_TPARM', TParm_ID=pid, Tfr_ID=tid, Name=pn, DT_ID=type_id(pt), By_Ref=0, Dimensions='',
                      Previous_TParm_ID=pp, Descrip='')
                pp = pid

    # state machines: D['classes'][i]['sms'] = [{'kind': 'ism' | 'asm', 'events': [{'numb', 'mning', 'data': [[name, type]]}],
    #   'states': [{'name', 'numb', 'body'}], 'txns': [[from state index | None (creation transition), event index, to state index,
    #   transition action text | None]], 'ignored': [[state index, event index]]}]
    ix['state'] = {}
    ix['evt'] = {}
    for ci, c in enumerate(D['classes']):
        for sm in c.get('sms', []):
            oid = ix['cls'][ci]
            smid = R.id()
            R.add('SM_SM', SM_ID=smid, Descrip='', Config_ID=0)
            R.add('SM_ISM' if sm['kind'] == 'ism' else 'SM_ASM', SM_ID=smid, Obj_ID=oid)
            R.add('SM_MOORE', SM_ID=smid)
            evt_ids = []
            for ev in sm['events']:
                eid = R.id()
                evt_ids.append(eid)
                lbl = '%s%s%d' % (c['kl'], '_A' if sm['kind'] == 'asm' else '', ev['numb'])
                ix['evt'][(ci, sm['kind'], ev['numb'])] = eid
                R.add('SM_EVT', SMevt_ID=eid, SM_ID=smid, SMspd_ID=0, Numb=ev['numb'], Mning=ev['mning'], Is_Lbl_U=0,
                      Unq_Lbl='', Drv_Lbl=lbl, Descrip='')
                R.add('SM_SEVT', SMevt_ID=eid, SM_ID=smid, SMspd_ID=0)
                R.add('SM_LEVT', SMevt_ID=eid, SM_ID=smid, SMspd_ID=0)
                prev = 0
                for dn, dt in ev['data']:
                    did = R.id()
                    R.add('SM_EVTDI', SMedi_ID=did, SM_ID=smid, Name=dn, Descrip='', DT_ID=type_id(dt), Dimensions='',
                          SMevt_ID=eid, Previous_SMedi_ID=prev)
                    prev = did
            st_ids = []

            def action(text):
                aid = R.id()
                R.add('SM_ACT', Act_ID=aid, SM_ID=smid, Suc_Pars=1, Action_Semantics_internal=text, Descrip='', Dialect=0)
                R.add('SM_AH', Act_ID=aid, SM_ID=smid)
                return aid
            for stt in sm['states']:
                sid = R.id()
                st_ids.append(sid)
                ix['state'][(ci, sm['kind'], stt['name'])] = sid
                R.add('SM_STATE', SMstt_ID=sid, SM_ID=smid, SMspd_ID=0, Name=stt['name'], Numb=stt['numb'], Final=0)
                aid = action(stt['body'])
                R.add('SM_MOAH', Act_ID=aid, SM_ID=smid, SMstt_ID=sid)
            for tk, (frm, ei, to, ttext) in enumerate(sm['txns']):
                tid = R.id()
                ix.setdefault('txn', {})[(ci, sm['kind'], tk)] = tid
                R.add('SM_TXN', Trans_ID=tid, SM_ID=smid, SMstt_ID=st_ids[to], SMspd_ID=0)
                if frm is None:
                    R.add('SM_CRTXN', Trans_ID=tid, SM_ID=smid, SMevt_ID=evt_ids[ei], SMspd_ID=0)
                else:
                    R.add('SM_SEME', SMstt_ID=st_ids[frm], SMevt_ID=evt_ids[ei], SM_ID=smid, SMspd_ID=0)
                    R.add('SM_NSTXN', Trans_ID=tid, SM_ID=smid, SMstt_ID=st_ids[frm], SMevt_ID=evt_ids[ei], SMspd_ID=0)
                if ttext is not None:
                    aid = action(ttext)
                    R.add('SM_TAH', Act_ID=aid, SM_ID=smid, Trans_ID=tid)
            for si, ei in sm.get('ignored', []):
                R.add('SM_SEME', SMstt_ID=st_ids[si], SMevt_ID=evt_ids[ei], SM_ID=smid, SMspd_ID=0)
                R.add('SM_EIGN', SMstt_ID=st_ids[si], SMevt_ID=evt_ids[ei], SM_ID=smid, SMspd_ID=0, Descrip='')

    if D.get('irdt'):
        # instance reference data types per class (inst_ref<KL>, inst_ref_set<KL>), as BridgePoint creates them
        for ci, c in enumerate(D['classes']):
            for is_set, nm in ((False, 'inst_ref<%s>' % c['kl']), (True, 'inst_ref_set<%s>' % c['kl'])):
                tid = R.id()
                ix['type'][nm] = tid
                R.add('S_DT', DT_ID=tid, Dom_ID=0, Name=nm, Descrip='', DefaultValue='')
                pe(tid, c['parent'], 3)
                R.add('S_IRDT', DT_ID=tid, isSet=is_set, Obj_ID=ix['cls'][ci])

    # referential attributes: O_RATTR rows are written once per attribute, O_REF once per (attribute, relationship)
    rattr_done = {}
    last_ref = {}

    def base_attr(ci, name, seen=()):
        """the non-referential attribute a referential attribute finally stands for"""
        for r in D['rels']:
            for (fc, refs, tc, toid) in formalisations(r):
                if fc == ci and name in refs:
                    tname = D['classes'][tc]['ids'][toid][refs.index(name)]
                    if (tc, tname) in seen:
                        return tc, tname
                    a = attr_of(D, tc, tname)
                    if a.get('ref'):
                        return base_attr(tc, tname, seen + ((ci, name),))
                    return tc, tname
        return ci, name

    def ref(form_ci, attr_name, to_ci, to_oid, to_attr, rel_id, rgo_oir, rto_oir, relnumb):
        aid = ix['attr'][(form_ci, attr_name)]
        if aid not in rattr_done:
            bc, bn = base_attr(form_ci, attr_name)
            R.add('O_RATTR', Attr_ID=aid, Obj_ID=ix['cls'][form_ci], BAttr_ID=ix['attr'][(bc, bn)], BObj_ID=ix['cls'][bc],
                  Ref_Mode=1, BaseAttrName=bn)
            rattr_done[aid] = True
        rid = R.id()
        R.add('O_REF', Obj_ID=ix['cls'][form_ci], RObj_ID=ix['cls'][to_ci], ROid_ID=to_oid,
              RAttr_ID=ix['attr'][(to_ci, to_attr)], Rel_ID=rel_id, OIR_ID=rgo_oir, ROIR_ID=rto_oir, Attr_ID=aid,
              ARef_ID=rid, PARef_ID=last_ref.get(aid, 0), Is_Cstrd=False, Descrip='', RObj_Name=D['classes'][to_ci]['name'],
              RAttr_Name=to_attr, Rel_Name='R%d' % relnumb)
        last_ref[aid] = rid

    def rto(ci, rel_id, oid_k):
        oir = R.id()
        R.add('R_OIR', Obj_ID=ix['cls'][ci], Rel_ID=rel_id, OIR_ID=oir, IObj_ID=0)
        R.add('R_RTO', Obj_ID=ix['cls'][ci], Rel_ID=rel_id, OIR_ID=oir, Oid_ID=oid_k)
        return oir

    def rgo(ci, rel_id):
        oir = R.id()
        R.add('R_OIR', Obj_ID=ix['cls'][ci], Rel_ID=rel_id, OIR_ID=oir, IObj_ID=0)
        R.add('R_RGO', Obj_ID=ix['cls'][ci], Rel_ID=rel_id, OIR_ID=oir)
        return oir

    def rtida(ci, oid_k, rel_id, oir):
        for n in D['classes'][ci]['ids'][oid_k]:
            R.add('O_RTIDA', Attr_ID=ix['attr'][(ci, n)], Obj_ID=ix['cls'][ci], Oid_ID=oid_k, Rel_ID=rel_id, OIR_ID=oir)

    for r in D['rels']:
        rel_id = R.id()
        ix['rel'][r['numb']] = rel_id
        R.add('R_REL', Rel_ID=rel_id, Numb=r['numb'], Descrip='', SS_ID=0)
        pe(rel_id, r.get('parent', D['classes'][first_class(r)]['parent']), 9)
        if r['kind'] == 'simple':
            R.add('R_SIMP', Rel_ID=rel_id)
            p_oir = rto(r['part'], rel_id, r.get('oid', 0))
            R.add('R_PART', Obj_ID=ix['cls'][r['part']], Rel_ID=rel_id, OIR_ID=p_oir, Mult=int(r['part_mult']),
                  Cond=int(r['part_cond']), Txt_Phrs=r['part_phrase'])
            rtida(r['part'], r.get('oid', 0), rel_id, p_oir)
            f_oir = rgo(r['form'], rel_id)
            R.add('R_FORM', Obj_ID=ix['cls'][r['form']], Rel_ID=rel_id, OIR_ID=f_oir, Mult=int(r['form_mult']),
                  Cond=int(r['form_cond']), Txt_Phrs=r['form_phrase'])
            for an, tn in zip(r['refs'], D['classes'][r['part']]['ids'][r.get('oid', 0)]):
                ref(r['form'], an, r['part'], r.get('oid', 0), tn, rel_id, f_oir, p_oir, r['numb'])
        elif r['kind'] == 'linked':
            R.add('R_ASSOC', Rel_ID=rel_id)
            one_oir = rto(r['one'], rel_id, r.get('one_oid', 0))
            R.add('R_AONE', Obj_ID=ix['cls'][r['one']], Rel_ID=rel_id, OIR_ID=one_oir, Mult=int(r['one_mult']),
                  Cond=int(r['one_cond']), Txt_Phrs=r['one_phrase'])
            rtida(r['one'], r.get('one_oid', 0), rel_id, one_oir)
            oth_oir = rto(r['oth'], rel_id, r.get('oth_oid', 0))
            R.add('R_AOTH', Obj_ID=ix['cls'][r['oth']], Rel_ID=rel_id, OIR_ID=oth_oir, Mult=int(r['oth_mult']),
                  Cond=int(r['oth_cond']), Txt_Phrs=r['oth_phrase'])
            rtida(r['oth'], r.get('oth_oid', 0), rel_id, oth_oir)
            l_oir = rgo(r['link'], rel_id)
            R.add('R_ASSR', Obj_ID=ix['cls'][r['link']], Rel_ID=rel_id, OIR_ID=l_oir, Mult=int(r['link_mult']))
            for an, tn in zip(r['one_refs'], D['classes'][r['one']]['ids'][r.get('one_oid', 0)]):
                ref(r['link'], an, r['one'], r.get('one_oid', 0), tn, rel_id, l_oir, one_oir, r['numb'])
            for an, tn in zip(r['oth_refs'], D['classes'][r['oth']]['ids'][r.get('oth_oid', 0)]):
                ref(r['link'], an, r['oth'], r.get('oth_oid', 0), tn, rel_id, l_oir, oth_oir, r['numb'])
        else:
            R.add('R_SUBSUP', Rel_ID=rel_id)
            s_oir = rto(r['super'], rel_id, r.get('oid', 0))
            R.add('R_SUPER', Obj_ID=ix['cls'][r['super']], Rel_ID=rel_id, OIR_ID=s_oir)
            rtida(r['super'], r.get('oid', 0), rel_id, s_oir)
            for sub in r['subs']:
                b_oir = rgo(sub['cls'], rel_id)
                R.add('R_SUB', Obj_ID=ix['cls'][sub['cls']], Rel_ID=rel_id, OIR_ID=b_oir)
                for an, tn in zip(sub['refs'], D['classes'][r['super']]['ids'][r.get('oid', 0)]):
                    ref(sub['cls'], an, r['super'], r.get('oid', 0), tn, rel_id, b_oir, s_oir, r['numb'])

    for f in D.get('functions', []):
        fid = R.id()
        ix['fn'][f['name']] = fid
        R.add('S_SYNC', Sync_ID=fid, Dom_ID=0, Name=f['name'], Descrip='', Action_Semantics_internal=f['body'],
              DT_ID=type_id(f['ret']), Suc_Pars=1, Return_Dimensions='', Dialect=0, Numb=0)
        pe(fid, f['parent'], 1)
        pp = 0
        for pn, pt in f['params']:
            pid = R.id()
            R.add('S_SPARM', SParm_ID=pid, Sync_ID=fid, Name=pn, DT_ID=type_id(pt), By_Ref=0, Dimensions='',
                  Previous_SParm_ID=pp, Descrip='')
            pp = pid
    for e in D.get('ees', []):
        eid = R.id()
        ix['ee'][e['kl']] = eid
        R.add('S_EE', EE_ID=eid, Name=e['name'], Descrip='', Key_Lett=e['kl'], Dom_ID=0, Realized_Class_Path='',
              Label='', isRealized=False)
        pe(eid, e['parent'], 5)
        for b in e['bridges']:
            bid = R.id()
            ix['brg'][(e['kl'], b['name'])] = bid
            R.add('S_BRG', Brg_ID=bid, EE_ID=eid, Name=b['name'], Descrip='', Brg_Typ=0, DT_ID=type_id(b['ret']),
                  Action_Semantics_internal=b['body'], Suc_Pars=1, Return_Dimensions='', Dialect=0)
            pp = 0
            for pn, pt in b['params']:
                pid = R.id()
                R.add('S_BPARM', BParm_ID=pid, Brg_ID=bid, Name=pn, DT_ID=type_id(pt), By_Ref=0, Dimensions='',
                      Previous_BParm_ID=pp, Descrip='')
                pp = pid
    for cs in D.get('constants', []):
        sid = R.id()
        R.add('CNST_CSP', Constant_Spec_ID=sid, InformalGroupName=cs['name'], Descrip='')
        pe(sid, cs['parent'], 10)
        prev = 0
        for it in cs['items']:
            cid = R.id()
            R.add('CNST_SYC', Const_ID=cid, Name=it['name'], Descrip='', DT_ID=type_id(it['type']), Constant_Spec_ID=sid,
                  Previous_Const_ID=prev, Previous_DT_DT_ID_Deprecated=0)
            R.add('CNST_LFSC', Const_ID=cid, DT_ID_Deprecated=0)
            R.add('CNST_LSC', Const_ID=cid, DT_ID_Deprecated=0, Value=it['value'])
            prev = cid
    return R.rows, ix


def first_class(r):
    if r['kind'] == 'simple':
        return r['form']
    if r['kind'] == 'linked':
        return r['link']
    return r['super']


def attr_of(D, ci, name):
    for a in D['classes'][ci]['attrs']:
        if a['name'] == name:
            return a
    raise KeyError((ci, name))


def formalisations(r):
    """-> list of (referring class, [referential attr names], referred class, referred identifier number)"""
    if r['kind'] == 'simple':
        return [(r['form'], r['refs'], r['part'], r.get('oid', 0))]
    if r['kind'] == 'linked':
        return [(r['link'], r['one_refs'], r['one'], r.get('one_oid', 0)),
                (r['link'], r['oth_refs'], r['oth'], r.get('oth_oid', 0))]
    return [(s['cls'], s['refs'], r['super'], r.get('oid', 0)) for s in r['subs']]


# -- rendering -----------------------------------------------------------------------------------------------------

_attr_order = {}


def table_attrs(table):
    if not _attr_order:
        from . import sqlread
        import bridgepoint.schema as bs
        for c in sqlread.parse(bs.classes)['classes']:
            _attr_order[c['name']] = [(n, t) for n, t in c['attrs']]
    return _attr_order[table]


def render(rows, header=True):
    from .gen_schema import sql_value
    out = []
    if header:
        out.append('-- BP 7.1 content: synthesised by the verification harness\n')
    for table, vals in rows:
        attrs = table_attrs(table)
        missing = set(vals) - set(n for n, _ in attrs)
        assert not missing, (table, missing)
        out.append('INSERT INTO %s\n\tVALUES (%s);' % (table, ',\n\t'.join(sql_value(t, vals.get(n)) for n, t in attrs)))
    return '\n'.join(out) + '\n'


# -- type helpers on D --------------------------------------------------------------------------------------------------

def find_type(D, name):
    for t in D['types']:
        if t['name'] == name:
            return t
    return None


_gudt = {}


def global_udt_base(name):
    """base type name of a predefined user type (date, timestamp, inst_ref<Timer>) as shipped in the library's
    globals data (bridgepoint/schema.py), read with the harness reader"""
    if not _gudt:
        from . import sqlread
        import bridgepoint.schema as bs
        g = sqlread.parse(bs.globals)
        names = {}
        for table, _n, vals in g['inserts']:
            if table == 'S_DT':
                names[vals[0][1]] = vals[2]
        for table, _n, vals in g['inserts']:
            if table == 'S_UDT':
                _gudt[names[vals[0][1]]] = names[vals[1][1]]
    return _gudt.get(name)


def resolve_core(D, name, depth=0):
    """pyxtuml column type of a modelled type name: core types 1-5 -> UPPER name, enum -> INTEGER, udt -> base, else None"""
    if name in SUPPORTED_CORE:
        return name.upper()
    if name in CORE:
        return None
    if name in GLOBAL_UDT:
        base = global_udt_base(name)    # e.g. timestamp is a user type of integer in the shipped globals
        return resolve_core(D, base, depth + 1) if base and depth < 10 else None
    t = find_type(D, name)
    if t is None or depth > 10:
        return None
    if t['kind'] == 'enum':
        return 'INTEGER'
    return resolve_core(D, t['base'], depth + 1)


def attr_base(D, ci, name, seen=()):
    """follow referential attributes to the attribute that carries the type"""
    a = attr_of(D, ci, name)
    if not a.get('ref'):
        return ci, a
    for r in D['rels']:
        for fc, refs, tc, toid in formalisations(r):
            if fc == ci and name in refs:
                tn = D['classes'][tc]['ids'][toid][refs.index(name)]
                if (tc, tn) in seen:
                    return None, None
                return attr_base(D, tc, tn, seen + ((ci, name),))
    return None, None


def contained_in(D, parent, root):
    """is an element with this parent inside root = ['comp', i] | ['pkg', i] ?"""
    cur = parent
    hops = 0
    while cur is not None and hops < 50:
        if list(cur) == list(root):
            return True
        kind, i = cur
        cur = D['packages'][i]['parent'] if kind == 'pkg' else D['components'][i]['parent']
        hops += 1
    return False


def is_global(D, parent):
    cur = parent
    hops = 0
    while cur is not None and hops < 50:
        kind, i = cur
        if kind == 'comp':
            return False
        cur = D['packages'][i]['parent']
        hops += 1
    return True


# -- expected component (C14 oracle) -------------------------------------------------------------------------------------

def expected_component(D, comp=None, derived=False):
    """-> {'classes': {KL: [[attr, TYPE]...]}, 'ids': {KL: {'I1': sorted attrs}}, 'assocs': sorted list}"""
    root = ['comp', comp] if comp is not None else None
    inscope = lambda parent: root is None or contained_in(D, parent, root)
    classes, ids = {}, {}
    for ci, c in enumerate(D['classes']):
        if not inscope(c['parent']):
            continue
        attrs = []
        omitted = set()
        for a in c['attrs']:
            bc, ba = attr_base(D, ci, a['name'])
            ty = resolve_core(D, ba['type']) if ba is not None else None
            if a.get('derived') is not None and not derived:
                omitted.add(a['name'])
            elif ty is None:
                omitted.add(a['name'])
            else:
                attrs.append([a['name'], ty])
        classes[c['kl']] = attrs
        idd = {}
        for k, names in enumerate(c['ids']):
            if not names:
                continue
            if not derived and any(attr_of(D, ci, n).get('derived') is not None for n in names):
                continue
            idd['I%d' % (k + 1)] = sorted(names)
        ids[c['kl']] = idd
    assocs = []
    KL = lambda ci: D['classes'][ci]['kl']
    for r in D['rels']:
        if not inscope(r.get('parent', D['classes'][first_class(r)]['parent'])):
            continue
        if r['kind'] == 'simple':
            refl = r['form'] == r['part']
            tk = D['classes'][r['part']]['ids'][r.get('oid', 0)]
            assocs.append(['R%d' % r['numb'], KL(r['form']), pairs(r['refs'], tk), bool(r['form_mult']), bool(r['form_cond']),
                           r['part_phrase'] if refl else '',
                           KL(r['part']), bool(r['part_mult']), bool(r['part_cond']), r['form_phrase'] if refl else ''])
        elif r['kind'] == 'linked':
            refl = r['one'] == r['oth']
            for side, other, refs in (('one', 'oth', r['one_refs']), ('oth', 'one', r['oth_refs'])):
                tk = D['classes'][r[side]]['ids'][r.get(side + '_oid', 0)]
                # per side instance: number of links = the OTHER side's multiplicity; exactly one side instance per link
                assocs.append(['R%d' % r['numb'], KL(r['link']), pairs(refs, tk), bool(r[other + '_mult']), bool(r[other + '_cond']),
                               r[side + '_phrase'] if refl else '',
                               KL(r[side]), False, False, r[other + '_phrase'] if refl else ''])
        else:
            tk = D['classes'][r['super']]['ids'][r.get('oid', 0)]
            for sub in r['subs']:
                assocs.append(['R%d' % r['numb'], KL(sub['cls']), pairs(sub['refs'], tk), False, True, '',
                               KL(r['super']), False, False, ''])
    assocs.sort(key=repr)
    return {'classes': classes, 'ids': ids, 'assocs': assocs}


def pairs(src, tgt):
    return sorted([a, b] for a, b in zip(src, tgt))


def describe_component(m):
    """normal form of a pyxtuml component, from public reads"""
    classes, ids = {}, {}
    for mc in m.metaclasses.values():
        classes[mc.kind] = [[n, t.upper()] for n, t in mc.attributes]
        ids[mc.kind] = dict((k, sorted(v)) for k, v in mc.indices.items())
    assocs = []
    for a in m.associations:
        assocs.append([a.rel_id, a.source_link.to_metaclass.kind, pairs(a.source_keys, a.target_keys),
                       bool(a.source_link.many), bool(a.source_link.conditional), a.target_link.phrase,
                       a.target_link.to_metaclass.kind, bool(a.target_link.many), bool(a.target_link.conditional),
                       a.source_link.phrase])
    assocs.sort(key=repr)
    return {'classes': classes, 'ids': ids, 'assocs': assocs}


# -- lifting BridgePoint-written rows back to a diagram --------------------------------------------------------------------

def lift(text):
    """Read .xtuml text with the harness reader (not xtuml.load) and rebuild the abstract diagram."""
    from . import sqlread
    js = sqlread.parse(text)
    T = {}
    for table, names, vals in js['inserts']:
        attrs = table_attrs(table) if table in _attr_order or _ensure() and table in _attr_order else None
        if attrs is None:
            continue
        T.setdefault(table, []).append(sqlread.typed_row(attrs[:len(vals)], names, vals))
    g = lambda t: T.get(t, [])
    D = {'packages': [], 'components': [], 'types': [], 'classes': [], 'rels': [], 'functions': [], 'ees': [], 'constants': []}
    pkg_ix = dict((r['Package_ID'], i) for i, r in enumerate(g('EP_PKG')))
    comp_ix = dict((r['Id'], i) for i, r in enumerate(g('C_C')))
    pe = dict((r['Element_ID'], r) for r in g('PE_PE'))

    def parent_of(eid):
        r = pe.get(eid)
        if r is None:
            return None
        if r['Package_ID'] in pkg_ix:
            return ['pkg', pkg_ix[r['Package_ID']]]
        if r['Component_ID'] in comp_ix:
            return ['comp', comp_ix[r['Component_ID']]]
        return None
    for r in g('EP_PKG'):
        D['packages'].append({'name': r['Name'], 'parent': parent_of(r['Package_ID'])})
    for r in g('C_C'):
        D['components'].append({'name': r['Name'], 'parent': parent_of(r['Id'])})
    dt_name = dict((r['DT_ID'], r['Name']) for r in g('S_DT'))
    for n, k in list(CORE.items()):
        dt_name[GID + k] = n
    for n, k in GLOBAL_UDT.items():
        dt_name[GID + k] = n
    for r in g('S_DT'):
        tid = r['DT_ID']
        if any(e['DT_ID'] == tid for e in g('S_EDT')):
            ens = [e for e in g('S_ENUM') if e['EDT_DT_ID'] == tid]
            order = []
            prev = 0
            while True:
                nxt = [e for e in ens if e['Previous_Enum_ID'] == prev]
                if not nxt:
                    break
                order.append(nxt[0]['Name'])
                prev = nxt[0]['Enum_ID']
            D['types'].append({'name': r['Name'], 'kind': 'enum', 'enumerators': order, 'parent': parent_of(tid)})
        else:
            u = [x for x in g('S_UDT') if x['DT_ID'] == tid]
            if u:
                D['types'].append({'name': r['Name'], 'kind': 'udt', 'base': dt_name[u[0]['CDT_DT_ID']], 'parent': parent_of(tid)})
    obj_ix = dict((r['Obj_ID'], i) for i, r in enumerate(g('O_OBJ')))
    attr_name = {}
    for r in g('O_OBJ'):
        oid = r['Obj_ID']
        attrs = [a for a in g('O_ATTR') if a['Obj_ID'] == oid]
        ordered = []
        prev = 0
        while True:
            nxt = [a for a in attrs if a['PAttr_ID'] == prev]
            if not nxt:
                break
            ordered.append(nxt[0])
            prev = nxt[0]['Attr_ID']
        alist = []
        for a in ordered:
            attr_name[a['Attr_ID']] = a['Name']
            if any(x['Attr_ID'] == a['Attr_ID'] for x in g('O_RATTR')):
                alist.append({'name': a['Name'], 'ref': True})
            else:
                d = [x for x in g('O_DBATTR') if x['Attr_ID'] == a['Attr_ID']]
                e = {'name': a['Name'], 'type': dt_name[a['DT_ID']]}
                if d:
                    e['derived'] = d[0]['Action_Semantics_internal']
                alist.append(e)
        nid = max([x['Oid_ID'] for x in g('O_ID') if x['Obj_ID'] == oid] + [-1]) + 1
        ids = [[x['localAttributeName'] for x in g('O_OIDA') if x['Obj_ID'] == oid and x['Oid_ID'] == k] for k in range(nid)]
        ids = [sorted_by_attr_order(i, alist) for i in ids]
        while ids and not ids[-1]:
            ids.pop()
        D['classes'].append({'name': r['Name'], 'kl': r['Key_Lett'], 'numb': r['Numb'], 'parent': parent_of(oid),
                             'attrs': alist, 'ids': ids, 'ops': []})

    def refs_for(rgo_oir, rto_oir, to_ci, to_oid):
        out = []
        for tn in D['classes'][to_ci]['ids'][to_oid]:
            for x in g('O_REF'):
                if x['OIR_ID'] == rgo_oir and x['ROIR_ID'] == rto_oir and attr_name.get(x['RAttr_ID']) == tn:
                    out.append(attr_name[x['Attr_ID']])
        return out
    for r in g('R_REL'):
        rid = r['Rel_ID']
        rto_oid = dict(((x['Obj_ID'], x['OIR_ID']), x['Oid_ID']) for x in g('R_RTO') if x['Rel_ID'] == rid)
        if any(x['Rel_ID'] == rid for x in g('R_SIMP')):
            p = [x for x in g('R_PART') if x['Rel_ID'] == rid]
            f = [x for x in g('R_FORM') if x['Rel_ID'] == rid]
            if not f or not p:
                continue
            p, f = p[0], f[0]
            pc, fc = obj_ix[p['Obj_ID']], obj_ix[f['Obj_ID']]
            oid_k = rto_oid[(p['Obj_ID'], p['OIR_ID'])]
            D['rels'].append({'numb': r['Numb'], 'kind': 'simple', 'part': pc, 'form': fc, 'parent': parent_of(rid),
                              'part_mult': bool(p['Mult']), 'part_cond': bool(p['Cond']), 'part_phrase': p['Txt_Phrs'],
                              'form_mult': bool(f['Mult']), 'form_cond': bool(f['Cond']), 'form_phrase': f['Txt_Phrs'],
                              'oid': oid_k, 'refs': refs_for(f['OIR_ID'], p['OIR_ID'], pc, oid_k)})
        elif any(x['Rel_ID'] == rid for x in g('R_ASSOC')):
            one = [x for x in g('R_AONE') if x['Rel_ID'] == rid][0]
            oth = [x for x in g('R_AOTH') if x['Rel_ID'] == rid][0]
            lnk = [x for x in g('R_ASSR') if x['Rel_ID'] == rid][0]
            oc, tc, lc = obj_ix[one['Obj_ID']], obj_ix[oth['Obj_ID']], obj_ix[lnk['Obj_ID']]
            ok, tk = rto_oid[(one['Obj_ID'], one['OIR_ID'])], rto_oid[(oth['Obj_ID'], oth['OIR_ID'])]
            D['rels'].append({'numb': r['Numb'], 'kind': 'linked', 'one': oc, 'oth': tc, 'link': lc, 'parent': parent_of(rid),
                              'one_mult': bool(one['Mult']), 'one_cond': bool(one['Cond']), 'one_phrase': one['Txt_Phrs'],
                              'oth_mult': bool(oth['Mult']), 'oth_cond': bool(oth['Cond']), 'oth_phrase': oth['Txt_Phrs'],
                              'link_mult': bool(lnk['Mult']), 'one_oid': ok, 'oth_oid': tk,
                              'one_refs': refs_for(lnk['OIR_ID'], one['OIR_ID'], oc, ok),
                              'oth_refs': refs_for(lnk['OIR_ID'], oth['OIR_ID'], tc, tk)})
        elif any(x['Rel_ID'] == rid for x in g('R_SUBSUP')):
            sup = [x for x in g('R_SUPER') if x['Rel_ID'] == rid][0]
            sc = obj_ix[sup['Obj_ID']]
            sk = rto_oid[(sup['Obj_ID'], sup['OIR_ID'])]
            subs = []
            for b in g('R_SUB'):
                if b['Rel_ID'] == rid:
                    bc = obj_ix[b['Obj_ID']]
                    subs.append({'cls': bc, 'refs': refs_for(b['OIR_ID'], sup['OIR_ID'], sc, sk)})
            D['rels'].append({'numb': r['Numb'], 'kind': 'subsuper', 'super': sc, 'subs': subs, 'oid': sk, 'parent': parent_of(rid)})
    return D


def sorted_by_attr_order(names, alist):
    order = [a['name'] for a in alist]
    return sorted(names, key=lambda n: order.index(n) if n in order else 999)


def _ensure():
    table_attrs('O_OBJ')
    return True
