"""C05 - prebuild followed by text generation reproduces the program."""
from hypothesis import strategies as st

import bridgepoint.oal as oal
from . import oalsyn, prebuildfix
from .c08_case import same_tree
from .core import Violation, hyp_run, Res, exc_bucket, TimeLimit

PROPERTY = 'C05'
RULE = ('Hypothesis: the synthesised BridgePoint component of C15 (nine classes, five relationships, instance reference '
        'types, enumeration, constants) whose functions, bridges, class- and instance-based operations and derived '
        'attribute hold generated name-resolved OAL bodies: assignments (scalars, attributes, array elements), if / elif / '
        'else, while, for each, break / continue / return / control stop, create / delete, relate / unrelate (+using), '
        'every select form with where clauses and multi-step chains, function / bridge / operation invocations with '
        'parameters (statement and expression position), parameter reads, enumerators and constants. prebuild_model is '
        'run on the loaded model, gen_text_action on every action home; the generated text must parse to the same tree '
        'as the original (strict: node class, every scalar field, child count and order; keyword-valued fields folded, '
        'implicit / class / bridge invocation nodes treated as one class), and prebuilding the generated text in a '
        'fresh model must generate the same text again. Exhaustive part: every two-operator nesting (16 x 16 binary pairs '
        'on either side, 3 unary operators over / left of / right of each binary operator) as an assignment in function '
        'f0, same two oracles. non-trivial = body with >= 5 statements and an invocation with '
        '>= 2 parameters or a chain of >= 2 steps or an elif; distinct = by body text.')
ASSUMPTIONS = [
    'constants are written Group::NAME (the generator of the text writes them that way)',
    'positions and character streams are not compared here (C06/C13)',
]


def cases():
    return st.fixed_dictionaries({'tape': oalsyn.tapes(900, 120), 'order': st.lists(st.integers(0, 10 ** 6), max_size=6)})


def count_statements(node):
    from .oalgen import STATEMENT_NODES
    n = 0
    if isinstance(node, dict):
        if node.get('t') in STATEMENT_NODES:
            n += 1
        for v in node.values():
            n += count_statements(v)
    elif isinstance(node, list):
        for v in node:
            n += count_statements(v)
    return n


def interesting(body):
    txt = repr(body)
    multi_param = False

    def walk(n):
        nonlocal multi_param
        if isinstance(n, dict):
            if n.get('t') == 'ParameterListNode' and len(n['children']) >= 2:
                multi_param = True
            if n.get('t') == 'NavigationListNode' and len(n['children']) >= 2:
                multi_param = True
            if n.get('t') == 'ElIfListNode' and n['children']:
                multi_param = True
            for v in n.values():
                walk(v)
        elif isinstance(n, list):
            for v in n:
                walk(v)
    walk(body)
    return multi_param and count_statements(body) >= 5


def run_case(case, res=None):
    try:
        fx = prebuildfix.Fixture(case['tape'], case['order'])
    except Exception as e:
        raise Violation('fixture-exception:' + exc_bucket(e), case, repr(e))
    info = dict(case, bodies=fx.source)

    def fail(bucket, detail):
        raise Violation(bucket, info, detail)
    try:
        with TimeLimit(60):
            fx.prebuild()
    except TimeLimit.Expired:
        fail('prebuild-does-not-terminate', 'prebuild_model did not return within 60 s')
    except Exception as e:
        fail('prebuild-exception:' + exc_bucket(e), repr(e))
    generated = {}
    for c in fx.callables:
        key = c.key
        t0 = fx.source[key]
        try:
            t1 = fx.generated_text(c)
        except Exception as e:
            fail('sourcegen-exception:%s:%s' % (c.kind, exc_bucket(e)), '%r\n%s' % (e, t0))
        generated[key] = t1
        try:
            a = oal.parse(t0)
        except Exception as e:
            fail('harness-original-does-not-parse', '%r\n%s' % (e, t0))
        try:
            b = oal.parse(t1)
        except oal.ParseException as e:
            fail('generated-text-does-not-parse:' + first_feature(t1), '%r\n--- original ---\n%s\n--- generated ---\n%s' % (e, t0, t1))
        d = same_tree(a, b, 'body', merge_invocations=True)
        if d:
            what = d.split(':')[0].split('.')[-1].split('[')[0]
            fail('generated-tree-differs:' + what, '%s\n--- original ---\n%s\n--- generated ---\n%s' % (d, t0, t1))
        if res is not None:
            nt = interesting(c.body)
            res.case(t0, nt, sample={'home': key, 'original': t0, 'generated': t1} if nt and len(t0) + len(t1) < 1500 else None,
                     classes=['home-' + c.kind] + sorted('f:' + f for f in fx.features if f in (
                         'array', 'enumerator', 'constant', 'call-in-expression', 'call-statement', 'chain', 'elif', 'where')))
    # idempotence: the generated text, prebuilt in a fresh model, generates itself
    try:
        fx2 = prebuildfix.Fixture(case['tape'], case['order'], texts=generated)
        fx2.prebuild()
        for c in fx2.callables:
            key = c.key
            t2 = fx2.generated_text(c)
            if t2 != generated[key]:
                fail('second-generation-differs', 'home %s\n--- first ---\n%s\n--- second ---\n%s' % (key, generated[key], t2))
    except Violation:
        raise
    except Exception as e:
        fail('second-round-exception:' + exc_bucket(e), repr(e))


def nesting_bodies():
    """every two-operator nesting of the expression grammar (binary in binary on either side, unary over binary,
    binary over unary), as assignments; the printer of the harness writes the parentheses the grouping needs"""
    from .oalgen import N, BINOPS, block
    L = lambda v: N('IntegerNode', value=str(v))
    B = lambda l, o, r: N('BinaryOperationNode', left=l, operator=o, right=r)
    U = lambda o, x: N('UnaryOperationNode', operator=o, operand=x)
    exprs = []
    for o1 in BINOPS:
        for o2 in BINOPS:
            exprs.append(('%s in-left-of %s' % (o1, o2), B(B(L(1), o1, L(2)), o2, L(3))))
            exprs.append(('%s in-right-of %s' % (o1, o2), B(L(1), o2, B(L(2), o1, L(3)))))
        for u in ('not', '-', '+'):
            exprs.append(('%s over %s' % (u, o1), U(u, B(L(1), o1, L(2)))))
            exprs.append(('%s left-of %s' % (u, o1), B(U(u, L(1)), o1, L(2))))
            exprs.append(('%s right-of %s' % (u, o1), B(L(1), o1, U(u, L(2)))))
    out = []
    per = 28
    for i in range(0, len(exprs), per):
        chunk = exprs[i:i + per]
        stmts = [N('AssignmentNode', variable_access=N('VariableAccessNode', variable_name='v%d' % k), expression=e, _kw='')
                 for k, (_w, e) in enumerate(chunk)]
        out.append(([w for w, _e in chunk], N('BodyNode', block=block(stmts))))
    return out


def run_nestings(ctx, res):
    tape = [0] * 200
    for names, body in nesting_bodies():
        _p, text, _pos = prebuildfix.layout_text(body)
        case = {'nestings': names, 'text': text}
        try:
            check_text(tape, text, case)
            res.case(text, True, classes=['operator-nestings'],
                     sample={'nestings': names[:4], 'text': text[:300]} if len(res.samples) < 3 else None)
        except Violation as v:
            res.violation(v)


def check_text(tape, text, case):
    """a given body text in the home function:f0 of the smallest fixture"""
    def fail(bucket, detail):
        raise Violation(bucket, case, detail)
    key = 'function:f0'
    try:
        fx = prebuildfix.Fixture(tape, texts={key: text})
        c = [c for c in fx.callables if c.key == key][0]
        fx.prebuild()
        t1 = fx.generated_text(c)
    except Exception as e:
        fail('nesting:exception:' + exc_bucket(e), repr(e))
    a = oal.parse(text)
    try:
        b = oal.parse(t1)
    except oal.ParseException as e:
        fail('nesting:generated-text-does-not-parse', '%r\n%s' % (e, t1))
    la = a.block.statement_list.children
    lb = b.block.statement_list.children
    if len(la) != len(lb):
        fail('nesting:statement-count', '%d vs %d\n%s' % (len(la), len(lb), t1))
    for k, (x, y) in enumerate(zip(la, lb)):
        d = same_tree(x, y, 'stmt', merge_invocations=True)
        if d:
            w = case['nestings'][k] if k < len(case.get('nestings', [])) else '?'
            fail('nesting:generated-tree-differs:' + w.split(' ')[1], '%s: %s\n--- original ---\n%s\n--- generated ---\n%s' % (
                w, d, text.split('\n')[k], t1.split('\n')[k] if k < len(t1.split('\n')) else ''))
    try:
        fx2 = prebuildfix.Fixture(tape, texts={key: t1})
        c2 = [c for c in fx2.callables if c.key == key][0]
        fx2.prebuild()
        t2 = fx2.generated_text(c2)
    except Exception as e:
        fail('nesting:second-round-exception:' + exc_bucket(e), repr(e))
    if t2 != t1:
        fail('nesting:second-generation-differs', '--- first ---\n%s\n--- second ---\n%s' % (t1, t2))


def first_feature(text):
    for kw in ('transform', 'bridge', 'send', '::'):
        if kw in text:
            return kw
    return 'other'


def run(ctx):
    res = Res()

    def body(case):
        try:
            run_case(case, res)
        except Violation:
            raise
        except Exception as e:
            raise Violation('harness-exception:' + exc_bucket(e), case, repr(e))

    if ctx.shard == 0:
        run_nestings(ctx, res)
    hyp_run(ctx, res, cases(), body, ctx.pick(90, 600), label='fixtures')
    return res


def replay(case):
    if 'nestings' in case:
        return check_text([0] * 200, case['text'], case)
    run_case(case)
