"""C18 - one loader builds independent metamodels."""
from hypothesis import strategies as st

import xtuml
from . import gen_schema, popgen
from .core import Violation, hyp_run, Res, exc_bucket
from .gen_schema import Schema, schema_statements, insert_statement
from .c03_loadlinks import canon

PROPERTY = 'C18'
RULE = ('Hypothesis histories on ONE ModelLoader: input(chunk of the statements of a generated schema + resolvable '
        'population, statements in a drawn order), input of a text that is rejected after some well-formed statements, build '
        '(IntegerGenerator / UUIDGenerator / default), and mutations '
        'of the i-th built metamodel: new, delete, attribute write, relate, unrelate, append/insert/delete_attribute, '
        'define_unique_identifier, define_class + define_association + formalize. Oracle: after every step every '
        'other built metamodel re-serializes to the snapshot taken when it was built (or last mutated itself), '
        'keeps its canonical form (links navigated both ways) and the next id its generator would hand out; every build equals the build of a FRESH loader fed '
        'the same inputs. non-trivial = >= 2 builds with an input between them and >= 1 schema-level mutation before a '
        'later build; distinct = by case.')
ASSUMPTIONS = [
    'ids of built instances come from the file, so builds under different id generators are comparable',
]


@st.composite
def cases(draw):
    schema_js = draw(gen_schema.schemas(max_classes=3, max_assocs=3, max_extra_attrs=2))
    pop = draw(popgen.resolvable(schema_js, max_rows=3, hard=False))
    ncls = len(schema_js['classes'])
    ops = [['input', ncls + draw(st.integers(0, 6))], ['build', draw(st.sampled_from(['int', 'uuid', 'default']))]]
    for _ in range(draw(st.integers(4, 25))):
        k = draw(st.integers(0, 9))
        if k <= 2 and draw(st.integers(0, 3)) == 0:
            # a text the loader rejects after some well-formed statements: nothing of it may reach a later build
            ops.append(['reject', draw(st.integers(1, 3)), draw(st.sampled_from(
                ['CREATE TABLE;', 'INSERT INTO', 'CREATE ROP REF_ID R1 FROM 2 A (Id) TO 1 B (Id);', 'garbage', "INSERT INTO X VALUES ('unterminated);"]))])
        elif k <= 2:
            ops.append(['input', draw(st.integers(1, 4))])
        elif k <= 4:
            ops.append(['build', draw(st.sampled_from(['int', 'uuid', 'default']))])
        else:
            ops.append(['mutate', draw(st.integers(0, 5)),
                        draw(st.sampled_from(['new', 'delete', 'set', 'relate', 'unrelate', 'append_attribute',
                                              'insert_attribute', 'delete_attribute', 'define_unique_identifier',
                                              'define_class'])),
                        draw(st.integers(0, 9)), draw(st.integers(0, 9)), draw(st.integers(0, 9))])
    nstm = len(schema_statements(schema_js)) + len(pop['rows'])
    late = draw(st.booleans())
    if late:
        ops[0] = ['input', draw(st.integers(1, 4))]
    return {'schema': schema_js, 'pop': pop, 'ops': ops, 'perm': list(draw(st.permutations(list(range(nstm))))),
            'sorted_prefix': draw(st.booleans()), 'late_tables': late, 'empty_index': draw(st.integers(0, 3)) == 0}


def statements_of(case):
    """Statements with referential values written from the intended links."""
    schema_js = case['schema']
    sc = Schema(schema_js)
    sh, recs = popgen.shadow_from_links(schema_js, case['pop']['rows'], case['pop']['links'])
    stm = list(schema_statements(schema_js))
    per = {}
    for cn, row in case['pop']['rows']:
        k = per.get(cn.upper(), 0)
        per[cn.upper()] = k + 1
        r = recs[cn.upper()][k]
        full = dict((n, sh.attr(r, n)) for n, _t in sc.attrs(cn))
        stm.append(insert_statement(sc, cn, full))
    order = case['perm'] if sorted(case['perm']) == list(range(len(stm))) else list(range(len(stm)))
    # CREATE TABLE statements first (in drawn order): an association or identifier naming a class that has not
    # arrived yet makes build raise UnknownClassException, which would leave most histories without a build
    ncls = len(schema_js['classes'])
    nsch = len(schema_statements(schema_js))
    if case.get('late_tables'):
        # tables and instances in any order (a build may see instances of a class whose table has not arrived yet
        # and infer it); associations and identifiers after all tables
        order = [i for i in order if i < ncls or i >= nsch] + [i for i in order if ncls <= i < nsch]
    else:
        order = [i for i in order if i < ncls] + [i for i in order if i >= ncls]
    out = [stm[i] for i in order]
    if case.get('empty_index'):
        # an identifier declared over no attribute at all (accepted, declares nothing) right before a real one
        import re
        for k, text in enumerate(out):
            mo = re.match(r'CREATE UNIQUE INDEX \S+ ON (\S+)', text)
            if mo:
                out.insert(k, 'CREATE UNIQUE INDEX I0 ON %s ();' % mo.group(1))
                break
    return out


def mutate(m, what, a, b, c, case):
    """Apply one mutation; returns a tag ('schema'|'data'|None when not applicable)."""
    kinds = sorted(m.metaclasses)
    if not kinds:
        if what == 'define_class':
            m.define_class('Zq_new', [('Id', 'UNIQUE_ID')])
            return 'schema'
        return None
    mc = m.metaclasses[kinds[a % len(kinds)]]
    insts = list(m.select_many(mc.kind))
    if what == 'new':
        try:
            m.new(mc.kind)
        except xtuml.MetaException:
            return None
        return 'data'
    if what == 'delete':
        if not insts:
            return None
        xtuml.delete(insts[b % len(insts)])
        return 'data'
    if what == 'set':
        plain = [(n, t) for n, t in mc.attributes if n not in mc.referential_attributes]
        if not insts or not plain:
            return None
        n, t = plain[c % len(plain)]
        v = {'BOOLEAN': True, 'INTEGER': 4711 + b, 'REAL': 2.5 + b, 'STRING': 'mutated %d' % b,
             'UNIQUE_ID': 900000 + b}.get(t.upper())
        if v is None:
            return None
        setattr(insts[b % len(insts)], n, v)
        return 'data'
    if what in ('relate', 'unrelate'):
        if not m.associations:
            return None
        ass = m.associations[b % len(m.associations)]
        src = list(m.select_many(ass.source_link.to_metaclass.kind))
        tgt = list(m.select_many(ass.target_link.to_metaclass.kind))
        if not src or not tgt:
            return None
        s, t = src[a % len(src)], tgt[c % len(tgt)]
        try:
            if what == 'relate':
                xtuml.relate(s, t, ass.rel_id, ass.target_link.phrase)
            else:
                xtuml.unrelate(s, t, ass.rel_id, ass.target_link.phrase)
        except xtuml.MetaException:
            return None
        return 'data'
    if what == 'append_attribute':
        mc.append_attribute('Extra_%d' % b, 'INTEGER')
        for i in insts:
            setattr(i, 'Extra_%d' % b, b)
        return 'schema'
    if what == 'insert_attribute':
        mc.insert_attribute(0, 'First_%d' % b, 'STRING')
        for i in insts:
            setattr(i, 'First_%d' % b, 'f')
        return 'schema'
    if what == 'delete_attribute':
        plain = [(n, t) for n, t in mc.attributes if n not in mc.referential_attributes
                 and n not in mc.identifying_attributes]
        if b % 3 == 0 and not insts:
            # also a key of an association or a member of an identifier (of a class without instances: what reading such
            # an instance gives is not the subject here); the other metamodels keep their keys and identifiers
            plain = list(mc.attributes)
        if not plain:
            return None
        mc.delete_attribute(plain[c % len(plain)][0])
        return 'schema'
    if what == 'define_unique_identifier':
        names = [n for n, _ in mc.attributes]
        if not names:
            return None
        m.define_unique_identifier(mc.kind, 'I%d' % (7 + b), names[c % len(names)])
        return 'schema'
    if what == 'define_class':
        name = 'Zq_new%d' % b
        if name.upper() in m.metaclasses:
            return None
        m.define_class(name, [('Id', 'UNIQUE_ID'), ('Ref', 'UNIQUE_ID')])
        tgt = mc
        keys = [n for n, t in tgt.attributes if t.upper() == 'UNIQUE_ID' and n not in tgt.referential_attributes]
        if keys:
            ass = m.define_association(900 + b, name, ['Ref'], True, True, '', tgt.kind, [keys[0]], False, True, '')
            ass.formalize()
        return 'schema'
    raise ValueError(what)


def snapshot(m, case):
    try:
        # the id a metamodel would hand out next is part of its state: creating instances in another metamodel (or
        # building one) must not use it up
        return xtuml.serialize(m), canon(m), m.id_generator.peek()
    except Exception as e:
        raise Violation('snapshot-exception:' + exc_bucket(e), case, repr(e))


def run_case(case, res=None):
    def fail(bucket, detail):
        raise Violation(bucket, case, detail)

    stm = statements_of(case)
    loader = xtuml.ModelLoader()
    fed = []
    pos = 0
    built = []          # [metamodel, snapshot]
    nbuild_after_input = 0
    input_since_build = False
    schema_mut_before_build = False
    schema_mut = False
    steps = []
    for op in case['ops']:
        if op[0] == 'input':
            chunk = stm[pos:pos + op[1]]
            if not chunk:
                continue
            pos += len(chunk)
            text = '\n'.join(chunk)
            try:
                loader.input(text)
            except Exception as e:
                fail('input-exception:' + exc_bucket(e), repr(e))
            fed.append(text)
            input_since_build = True
            steps.append('input')
        elif op[0] == 'reject':
            # the statements that would come next (they stay pending), followed by text the grammar rejects
            chunk = stm[pos:pos + op[1]] or stm[:op[1]]
            try:
                loader.input('\n'.join(chunk) + '\n' + op[2])
            except xtuml.ParsingException:
                steps.append('rejected-input')
            except Exception as e:
                fail('input-exception:' + exc_bucket(e), repr(e))
            else:
                fail('malformed-input-accepted', 'input %r was accepted' % op[2])
            input_since_build = True
        elif op[0] == 'build':
            gen = {'int': xtuml.IntegerGenerator, 'uuid': xtuml.UUIDGenerator, 'default': None}[op[1]]
            try:
                m = loader.build_metamodel(gen() if gen else None)
                fresh_loader = xtuml.ModelLoader()
                for t in fed:
                    fresh_loader.input(t)
                ref = fresh_loader.build_metamodel(gen() if gen else None)
            except xtuml.MetaException:
                # an instance of a class whose table arrives later: both must agree on rejecting
                continue
            except Exception as e:
                fail('build-exception:' + exc_bucket(e), repr(e))
            s_m, c_m, _p = snapshot(m, case)
            s_r, c_r, _p = snapshot(ref, case)
            if s_m != s_r or c_m != c_r:
                why = 'after-schema-mutation' if schema_mut else 'plain'
                fail('build-differs-from-fresh-loader:' + why,
                     'build %d differs from a fresh loader fed the same %d inputs:\n%s' % (len(built), len(fed), _diff(s_m, s_r)))
            if built and input_since_build:
                nbuild_after_input += 1
                if schema_mut:
                    schema_mut_before_build = True
            for j, (mj, snap) in enumerate(built):
                now = snapshot(mj, case)
                if now != snap:
                    fail('build-visible-in-other-metamodel', 'build %d changed metamodel %d:\n%s' % (len(built), j, _diff3(snap, now)))
            built.append([m, snapshot(m, case)])
            input_since_build = False
            steps.append('build')
        else:
            if not built:
                continue
            i = op[1] % len(built)
            try:
                tag = mutate(built[i][0], op[2], op[3], op[4], op[5], case)
            except Exception as e:
                fail('mutation-exception:%s:%s' % (op[2], exc_bucket(e)), repr(e))
            if tag is None:
                continue
            if tag == 'schema':
                schema_mut = True
            steps.append('mutate-' + op[2])
            for j, (mj, snap) in enumerate(built):
                if j == i:
                    continue
                now = snapshot(mj, case)
                if now != snap:
                    fail('mutation-visible-in-other-metamodel:%s' % op[2],
                         'mutating metamodel %d (%s) changed metamodel %d:\n%s' % (i, op[2], j, _diff3(snap, now)))
            built[i][1] = snapshot(built[i][0], case)
    if res is not None:
        nt = nbuild_after_input >= 1 and schema_mut_before_build
        cl = ['builds-%d' % min(len(built), 3)] + sorted(set(s for s in steps if s.startswith('mutate-') or s == 'rejected-input'))
        res.case(case, nt, sample={'statements': stm, 'ops': case['ops']} if nt and len(repr(stm)) < 1500 else None, classes=cl)


def _diff3(snap, now):
    if snap[2] != now[2]:
        return 'next id of its generator was %r, is %r' % (snap[2], now[2])
    return _diff(snap[0], now[0])


def _diff(a, b):
    al, bl = a.splitlines(), b.splitlines()
    for i, (x, y) in enumerate(zip(al, bl)):
        if x != y:
            return 'line %d: %r vs %r' % (i + 1, x, y)
    return 'lengths %d vs %d lines' % (len(al), len(bl))


def run(ctx):
    res = Res()

    def body(case):
        try:
            run_case(case, res)
        except Violation:
            raise
        except Exception as e:
            raise Violation('harness-exception:' + exc_bucket(e), case, repr(e))

    hyp_run(ctx, res, cases(), body, ctx.pick(1400, 4000), label='histories')
    return res


def replay(case):
    run_case(case)
