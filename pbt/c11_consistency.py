"""C11 - the consistency check reports exactly the violations present."""
import os
import subprocess
import sys

from hypothesis import strategies as st

import xtuml
from . import gen_schema, popgen, build, sqlread
from .core import Violation, hyp_run, loop_run, Res, exc_bucket, sha
from .gen_schema import Schema, is_null
from .machine import Runner
from .shadow import Shadow
from . import c02_links

PROPERTY = 'C11'
RULE = ('models from (a) loading dirty SQL populations (null, dangling, duplicate keys; over-populated single-valued '
        'ends are reachable only this way), (b) API histories of C02 that leave unconditional ends under-populated, '
        'each checked with check_association_integrity (all / every rel id as int and as Rn / unknown id), '
        'check_uniqueness_constraint (all / every class under a drawn spelling), check_subtype_integrity and '
        'is_consistent against counts computed on the plain relational shadow, and judged again after API edits of a loaded '
        'model and after up to two further identifiers were declared on classes that already have instances; the same populations written to '
        'files and passed to xtuml.consistency_check.main with drawn -r/-k combinations (in-process) and to '
        '`python -m xtuml.consistency_check` / `python -m bridgepoint.consistency_check [-g]` as sub-processes for the '
        'exit status; for the BridgePoint tool the rows are ooaofooa instances and the expected counts come from the '
        "harness's own regex reading of bridgepoint/schema.py. non-trivial = expected total >= 2 with both an "
        'association and an identifier violation, or a restriction that removes >= 1 violation; distinct = by case.')
ASSUMPTIONS = [
    'identifying STRING attributes are never the empty string (whether that is null for the checker is not stated)',
    'in generated schemas every referred key is also a declared unique identifier, so "identifying attribute" is unambiguous',
    'a null identifying value is None or the 0 id',
]


def ident_attrs(sc, cname):
    s = []
    for u in sc.uniques:
        if u['cls'].upper() == cname.upper():
            for a in u['attrs']:
                if a not in s:
                    s.append(a)
    for a in sc.assocs:
        if a['tgt'].upper() == cname.upper():
            for k in a['tgt_keys']:
                if k not in s:
                    s.append(k)
    return s


def expected_uniqueness(sh, cname=None):
    sc = sh.schema
    total = 0
    for c in sc.classes:
        if cname is not None and c['name'].upper() != cname.upper():
            continue
        ia = ident_attrs(sc, c['name'])
        live = sh.live(c['name'])
        for r in live:
            for n, t in c['attrs']:
                if n in ia:
                    v = sh.attr(r, n)
                    if v is None or (t.upper() == 'UNIQUE_ID' and v == 0):
                        total += 1
        for u in sc.uniques:
            if u['cls'].upper() != c['name'].upper():
                continue
            seen = []
            for r in live:
                key = [sh.attr(r, a) for a in u['attrs']]
                if any(_keq(key, o) for o in seen):
                    total += 1
                else:
                    seen.append(key)
    return total


def _keq(a, b):
    return len(a) == len(b) and all((x is None and y is None) or (x is not None and y is not None and x == y)
                                    for x, y in zip(a, b))


def expected_subtype(sh, super_kind, rel):
    n = 0
    for r in sh.live(super_kind):
        has = False
        for i, a in enumerate(sh.schema.assocs):
            if a['rel'] == rel and a['tgt'].upper() == super_kind.upper():
                if sh.partners(i, r, False):
                    has = True
        if not has:
            n += 1
    return n


@st.composite
def cases(draw):
    src = draw(st.sampled_from(['load', 'load', 'history', 'late']))
    if src == 'late':
        # instances first (plain values in the referential attributes), then batch_relate() + formalize(); afterwards
        # some links are removed through the API, so what an identifying referential attribute reads has changed
        from . import c01_roundtrip
        c = draw(c01_roundtrip.cases())
        nl = len(c['pop']['links'])
        return {'source': 'late', 'schema': c['schema'], 'pop': c['pop'], 'unset': [], 'late': True, 'drop': [],
                'unlink': sorted(draw(st.sets(st.integers(0, max(nl - 1, 0)), max_size=3))) if nl else [],
                'restr': draw(restrictions()), 'late_ids': draw(late_ids())}
    if src == 'history':
        h = draw(c02_links.history_cases())
        h['source'] = 'history'
        h['restr'] = draw(restrictions())
        h['late_ids'] = draw(late_ids())
        return h
    schema_js = draw(gen_schema.schemas(max_classes=3, max_assocs=3, max_extra_attrs=1,
                                        typecase=draw(st.integers(0, 4)) == 0))
    rows = draw(popgen.dirty_rows(schema_js, max_rows=4, null_ident=True))
    rows = [[cn, _no_empty_ident(schema_js, cn, row)] for cn, row in rows]
    # API edits of the loaded model (unrelate the k-th link / delete the k-th instance), counted again afterwards
    edits = draw(st.lists(st.tuples(st.sampled_from(['unrelate', 'unrelate', 'delete']), st.integers(0, 11)), max_size=3))
    return {'source': 'load', 'schema': schema_js, 'rows': rows, 'restr': draw(restrictions()),
            'named': draw(st.booleans()), 'cli': draw(st.integers(0, 3)) == 0, 'edits': [list(e) for e in edits],
            'late_ids': draw(late_ids())}


def late_ids():
    return st.lists(st.tuples(st.integers(0, 9), st.lists(st.integers(0, 9), min_size=1, max_size=2)), max_size=2).map(
        lambda l: [[ci, list(ais)] for ci, ais in l])


def _no_empty_ident(schema_js, cn, row):
    sc = Schema(schema_js)
    ia = ident_attrs(sc, cn)
    refs = sc.referentials(cn)
    out = dict(row)
    for n, t in sc.attrs(cn):
        if n in ia and n not in refs and t.upper() == 'STRING' and out.get(n) == '':
            out[n] = 'e'
    return out


def restrictions():
    return st.fixed_dictionaries({'rels': st.lists(st.integers(0, 9), max_size=3),
                                  'kinds': st.lists(st.integers(0, 9), max_size=2),
                                  'spell': st.sampled_from(['same', 'upper', 'lower'])})


def spell(name, how):
    return name if how == 'same' else (name.upper() if how == 'upper' else name.lower())


def run_case(case, res=None):
    def fail(bucket, detail):
        raise Violation(bucket, case, detail)

    sc = Schema(case['schema'])
    if case['source'] == 'history':
        r = Runner(case['schema'], case=case, via_sql=case.get('via_sql', False), checking=False)
        for it in case['init']:
            r.new(it[0], it[1])
        for op in case['ops']:
            if op[0] in ('relate', 'unrelate'):
                op = c02_links.resolve_cls_refs(r, op)
                if op is None:
                    continue
            op = c02_links.normalise(r, op)
            if op is not None:
                r.apply(op)
        m, sh = r.m, r.sh
        text = None
    elif case['source'] == 'late':
        from . import c01_roundtrip
        if case['pop'].get('unresolvable'):
            if res is not None:
                res.discarded['population not expressible by key values'] += 1
            return 0, 0
        # a link that exists only because unset key values of a type without a null (INTEGER 0) happen to match is there
        # after a save and reload (C01's subject) but is not created by batch_relate from the raw values: set aside
        sh0, recs0 = popgen.shadow_from_links(case['schema'], case['pop']['rows'], case['pop']['links'])
        for i, s_, t_ in case['pop']['links']:
            a = sc.assocs[i]
            trec = recs0[a['tgt'].upper()][t_]
            if any(sh0.attr(trec, k) is None for k in a['tgt_keys']):
                if res is not None:
                    res.discarded['late: a link rests on unset key values'] += 1
                return 0, 0
        try:
            m, insts = c01_roundtrip.build_m0_late(case)
        except Exception as e:
            fail('harness-build-late:' + exc_bucket(e), repr(e))
        links = [l for li, l in enumerate(case['pop']['links'])]
        for li in case.get('unlink', []):
            if li < len(links) and links[li] is not None:
                i, s_, t_ = links[li]
                a = sc.assocs[i]
                try:
                    xtuml.unrelate(insts[a['src'].upper()][s_], insts[a['tgt'].upper()][t_], a['rel'], a['src_phrase'])
                except Exception as e:
                    fail('unrelate-exception:' + exc_bucket(e), repr(e))
                links[li] = None
        sh, _recs = popgen.shadow_from_links(case['schema'], case['pop']['rows'], [l for l in links if l is not None])
        text = None
    else:
        try:
            m, text = popgen.load_rows(case['schema'], case['rows'], named=case.get('named', False))
        except Exception as e:
            fail('load-exception:' + exc_bucket(e), repr(e))
        sh, shrecs = popgen.shadow_from_rows(case['schema'], case['rows'])

    rels = sorted(set(a['rel'] for a in sc.assocs))
    exp_all = sh.count_association_violations()
    exp_uni = expected_uniqueness(sh)
    try:
        got_all = xtuml.check_association_integrity(m)
        got_uni = xtuml.check_uniqueness_constraint(m)
        cons = m.is_consistent()
    except Exception as e:
        fail('check-exception:' + exc_bucket(e), repr(e))
    if got_all != exp_all:
        # locate the association for the bucket
        which = ''
        for rel in rels:
            if xtuml.check_association_integrity(m, rel) != sh.count_association_violations(rel):
                shapes = sorted(set(a['shape'] for a in sc.assocs if a['rel'] == rel))
                which = ':' + '+'.join(shapes)
                break
        fail('association-count-wrong' + which, 'check_association_integrity = %d, present %d' % (got_all, exp_all))
    if got_uni != exp_uni:
        fail('uniqueness-count-wrong', 'check_uniqueness_constraint = %d, present %d' % (got_uni, exp_uni))
    if cons != (exp_all == 0 and exp_uni == 0):
        fail('is-consistent-wrong', 'is_consistent() = %r with %d + %d violations' % (cons, exp_all, exp_uni))
    removed = False
    for rel in rels + [max(rels) + 13]:
        want = sh.count_association_violations(rel)
        for arg in (rel, 'R%d' % rel):
            got = xtuml.check_association_integrity(m, arg)
            if got != want:
                fail('restricted-association-count-wrong', 'rel %r: %d, present %d' % (arg, got, want))
        if want < exp_all:
            removed = True
    for c in sc.classes:
        want = expected_uniqueness(sh, c['name'])
        for how in ('same', 'upper', 'lower'):
            got = xtuml.check_uniqueness_constraint(m, spell(c['name'], how))
            if got != want:
                fail('restricted-uniqueness-count-wrong', 'kind %r: %d, present %d' % (spell(c['name'], how), got, want))
        if want < exp_uni:
            removed = True
    sub_checked = False
    for a in sc.assocs:
        if a.get('shape') == 'subsuper':
            want = expected_subtype(sh, a['tgt'], a['rel'])
            for arg in (a['rel'], 'R%d' % a['rel']):
                got = xtuml.check_subtype_integrity(m, a['tgt'], arg)
                if got != want:
                    fail('subtype-count-wrong', '%s R%d: %d, present %d' % (a['tgt'], a['rel'], got, want))
            sub_checked = True
    classes = ['source-' + case['source']]
    if case.get('cli') and text is not None:
        classes.append('cli-inprocess')
        restr = case['restr']
        rsel = [rels[k % len(rels)] if k < 8 else max(rels) + 13 for k in restr['rels']]
        ksel = [sc.classes[k % len(sc.classes)]['name'] for k in restr['kinds']]
        want = (sum(sh.count_association_violations(r_) for r_ in rsel) if rsel else exp_all) + \
               (sum(expected_uniqueness(sh, k) for k in ksel) if ksel else exp_uni)
        path = os.path.join(build.tmpdir(), 'c11-%d-%s.sql' % (os.getpid(), sha(case)[:10]))
        with open(path, 'w') as f:
            f.write(text)
        try:
            import xtuml.consistency_check as cc
            args = []
            for r_ in rsel:
                args += ['-r', str(r_)]
            for k in ksel:
                args += ['-k', spell(k, restr['spell'])]
            got = cc.main(args + [path])
        except Exception as e:
            fail('cli-main-exception:' + exc_bucket(e), repr(e))
        finally:
            os.unlink(path)
        if got != want:
            fail('cli-main-count-wrong', 'main(%r) = %r, present %d' % (args, got, want))
        if want < exp_all + exp_uni:
            removed = True
    if case['source'] == 'load' and case.get('edits'):
        edited = apply_edits(case, sc, m, sh, shrecs, fail)
        if edited:
            classes.append('edited-after-load')
            e_all = sh.count_association_violations()
            e_uni = expected_uniqueness(sh)
            try:
                g_all = xtuml.check_association_integrity(m)
                g_uni = xtuml.check_uniqueness_constraint(m)
                g_cons = m.is_consistent()
            except Exception as e:
                fail('check-exception-after-edit:' + exc_bucket(e), repr(e))
            if g_all != e_all:
                fail('association-count-wrong-after-edit', 'after %r: check_association_integrity = %d, present %d' % (edited, g_all, e_all))
            for rel in rels:
                want = sh.count_association_violations(rel)
                got = xtuml.check_association_integrity(m, rel)
                if got != want:
                    fail('restricted-association-count-wrong-after-edit', 'after %r: rel %r: %d, present %d' % (edited, rel, got, want))
            if g_uni != e_uni:
                fail('uniqueness-count-wrong-after-edit', 'after %r: check_uniqueness_constraint = %d, present %d' % (edited, g_uni, e_uni))
            if g_cons != (e_all == 0 and e_uni == 0):
                fail('is-consistent-wrong-after-edit', 'after %r: is_consistent() = %r with %d + %d violations' % (edited, g_cons, e_all, e_uni))
            if (e_all, e_uni) != (exp_all, exp_uni):
                removed = True
    # the schema is tightened after the model was judged: a further identifier over 1-2 attributes of a class that
    # has instances (no instance, link or value is touched); every count and the verdict follow
    sc_now = sh.schema
    sc_now.uniques = list(sc_now.uniques)          # the case itself stays as drawn
    for ci, ais in case.get('late_ids', []):
        c = sc_now.classes[ci % len(sc_now.classes)]
        names = []
        for ai in ais:
            n, t = c['attrs'][ai % len(c['attrs'])]
            if n not in names and n not in ('self', 'kind') and not (t.upper() == 'STRING' and any(sh.attr(r_, n) == '' for r_ in sh.live(c['name']))):
                names.append(n)
        if not names or not sh.live(c['name']):
            continue
        uname = 'I%d' % (7 + len(sc_now.uniques))
        try:
            m.define_unique_identifier(c['name'], uname, *names)
        except Exception as e:
            fail('define-identifier-exception:' + exc_bucket(e), repr(e))
        sc_now.uniques.append({'cls': c['name'], 'name': uname, 'attrs': list(names)})
        classes.append('identifier-added-later')
        l_all = sh.count_association_violations()
        l_uni = expected_uniqueness(sh)
        try:
            g_uni = xtuml.check_uniqueness_constraint(m)
            g_kind = xtuml.check_uniqueness_constraint(m, c['name'])
            g_cons = m.is_consistent()
        except Exception as e:
            fail('check-exception-after-late-identifier:' + exc_bucket(e), repr(e))
        if g_uni != l_uni or g_kind != expected_uniqueness(sh, c['name']):
            fail('uniqueness-count-wrong-after-late-identifier', 'identifier %s over %r of %s: check_uniqueness_constraint = %d (class: %d), present %d'
                 % (uname, names, c['name'], g_uni, g_kind, l_uni))
        if g_cons != (l_all == 0 and l_uni == 0):
            fail('is-consistent-wrong-after-late-identifier', 'identifier %s over %r of %s: is_consistent() = %r with %d + %d violations'
                 % (uname, names, c['name'], g_cons, l_all, l_uni))
        if l_uni != exp_uni:
            removed = True
    if exp_all and exp_uni:
        classes.append('both-kinds')
    if sub_checked:
        classes.append('subtype-checked')
    nt = (exp_all + exp_uni >= 2 and exp_all > 0 and exp_uni > 0) or removed
    if res is not None:
        res.case(case, nt, sample=case if nt and len(repr(case)) < 1800 else None, classes=classes)
    return exp_all, exp_uni


def apply_edits(case, sc, m, sh, shrecs, fail):
    """the same unrelate / delete calls on the loaded model and on the shadow; -> list of what was done"""
    real = {}
    for c in sc.classes:
        for r, inst in zip(shrecs.get(c['name'].upper(), []), m.select_many(c['name'])):
            real[id(r)] = inst
    done = []
    for kind, k in case['edits']:
        if kind == 'unrelate':
            flat = [(i, s, t) for i in range(len(sh.links)) for (s, t) in sh.links[i]]
            if not flat:
                continue
            i, s, t = flat[k % len(flat)]
            a = sc.assocs[i]
            try:
                sh.unrelate(s, t, a['rel'], a['src_phrase'])
            except Exception:
                continue        # phrase does not single out this pair in the shadow: not a call this check makes
            try:
                ok = xtuml.unrelate(real[id(s)], real[id(t)], a['rel'], a['src_phrase'])
            except Exception as e:
                fail('unrelate-after-load-exception:' + exc_bucket(e), repr(e))
            if ok is not True:
                fail('unrelate-after-load-returned', repr(ok))
            done.append(['unrelate', a['rel'], s.idx, t.idx])
        else:
            live = [r for c in sc.classes for r in sh.live(c['name'])]
            if not live:
                continue
            r = live[k % len(live)]
            sh.delete(r)
            try:
                xtuml.delete(real[id(r)])
            except Exception as e:
                fail('delete-after-load-exception:' + exc_bucket(e), repr(e))
            done.append(['delete', r.cls, r.idx])
    return done


# -- sub-process exit status ----------------------------------------------------------------

FIXED_SCHEMA = c02_links.FIXED['one2many']


def cli_cases(ctx):
    """(rows, args) for `python -m xtuml.consistency_check`."""
    clean = [['A', {'Id': 1}], ['B', {'Id': 5, 'A_Id': 1}]]
    dangling = [['A', {'Id': 1}], ['B', {'Id': 5, 'A_Id': 2}]]          # B without A is fine (1C), nothing else
    dup_id = [['A', {'Id': 1}], ['A', {'Id': 1}], ['B', {'Id': 5, 'A_Id': 1}]]
    null_id = [['A', {'Id': 0}]]
    out = [(clean, []), (dup_id, []), (dup_id, ['-k', 'B']), (dup_id, ['-r', '99', '-k', 'B']),
           (null_id, []), (dangling, [])]
    if not ctx.quick:
        out += [(dup_id, ['-k', 'a']), (dup_id, ['-r', '2']), (dup_id, ['-r', '2', '-k', 'A']),
                (null_id, ['-k', 'B']), (clean, ['-r', '2', '-r', '3', '-k', 'A', '-k', 'B'])]
    return out


def run_cli_case(rows, args, modname='xtuml.consistency_check'):
    case = {'cli': modname, 'rows': rows, 'args': args}
    sc = Schema(FIXED_SCHEMA)
    text = '\n'.join(gen_schema.schema_statements(FIXED_SCHEMA) +
                     [gen_schema.insert_statement(sc, cn, row) for cn, row in rows])
    sh, _ = popgen.shadow_from_rows(FIXED_SCHEMA, rows)
    rsel = [int(args[i + 1]) for i, a in enumerate(args) if a == '-r']
    ksel = [args[i + 1] for i, a in enumerate(args) if a == '-k']
    want = (sum(sh.count_association_violations(r_) for r_ in rsel) if rsel else sh.count_association_violations()) + \
           (sum(expected_uniqueness(sh, k) for k in ksel) if ksel else expected_uniqueness(sh))
    path = os.path.join(build.tmpdir(), 'c11cli-%d.sql' % os.getpid())
    with open(path, 'w') as f:
        f.write(text)
    try:
        p = subprocess.run([sys.executable, '-m', modname] + args + [path], env=build.python_env(),
                           stdin=subprocess.DEVNULL, stdout=subprocess.PIPE, stderr=subprocess.PIPE, timeout=120)
    finally:
        os.unlink(path)
    if p.returncode not in (0, 1):
        raise Violation('cli-exit-status-other', case, 'exit %d: %s' % (p.returncode, p.stderr[-300:]))
    if (p.returncode != 0) != (want > 0):
        raise Violation('cli-exit-status-wrong', case, 'exit %d with %d violations present' % (p.returncode, want))
    return want


# -- BridgePoint tool ---------------------------------------------------------------------------

_ooa = {}


def ooa_schema():
    if not _ooa:
        import bridgepoint.schema as bs
        txt = bs.classes + bs.associations + bs.indices
        js = sqlread.parse(txt)
        _ooa['schema'] = {'classes': js['classes'], 'assocs': js['assocs'], 'uniques': js['uniques']}
        g = sqlread.parse(bs.globals)
        sc = Schema(_ooa['schema'])
        _ooa['globals'] = [[k, sqlread.typed_row(sc.attrs(k), names, vals)] for k, names, vals in g['inserts']]
    return _ooa['schema'], _ooa['globals']


def bp_rows(variant):
    """Small ooaofooa row sets with hand-placed defects; all expectations are computed, not stated."""
    DT = lambda i: 1000 + i
    rows = []
    if variant == 'empty':
        return rows
    # a package with two data types; variant decides the defects
    rows.append(['EP_PKG', {'Package_ID': 1, 'Sys_ID': 0, 'Direct_Sys_ID': 0, 'Name': 'p', 'Descrip': '', 'Num_Rng': 0}])
    rows.append(['PE_PE', {'Element_ID': 1, 'Visibility': 1, 'Package_ID': 0, 'Component_ID': 0, 'type': 7}])
    for i in (1, 2):
        rows.append(['PE_PE', {'Element_ID': DT(i), 'Visibility': 1, 'Package_ID': 1, 'Component_ID': 0, 'type': 3}])
        rows.append(['S_DT', {'DT_ID': DT(i), 'Dom_ID': 0, 'Name': 't%d' % i, 'Descrip': '', 'DefaultValue': ''}])
        rows.append(['S_CDT', {'DT_ID': DT(i), 'Core_Typ': i}])
    if variant == 'dup':
        rows.append(['S_DT', {'DT_ID': DT(1), 'Dom_ID': 0, 'Name': 'again', 'Descrip': '', 'DefaultValue': ''}])
    if variant == 'dangling':
        rows.append(['S_UDT', {'DT_ID': DT(9), 'CDT_DT_ID': DT(1), 'Gen_Type': 0, 'Definition': ''}])
    if variant == 'nullid':
        rows.append(['S_ENUM', {'Enum_ID': 0, 'Name': 'e', 'Descrip': '', 'EDT_DT_ID': 0, 'Previous_Enum_ID': 0}])
    return rows


def bp_expected(rows, with_globals, rsel, ksel):
    schema_js, grows = ooa_schema()
    allrows = (list(grows) if with_globals else []) + rows
    sh, _ = popgen.shadow_from_rows(schema_js, allrows)
    a = sum(sh.count_association_violations(r_) for r_ in rsel) if rsel else sh.count_association_violations()
    u = sum(expected_uniqueness(sh, k) for k in ksel) if ksel else expected_uniqueness(sh)
    return a, u


def run_bp_case(variant, flags, inprocess):
    case = {'bp': variant, 'flags': flags, 'inprocess': inprocess}
    schema_js, _ = ooa_schema()
    sc = Schema(schema_js)
    rows = bp_rows(variant)
    text = '\n'.join(gen_schema.insert_statement(sc, cn, row) for cn, row in rows) + '\n'
    rsel = [int(flags[i + 1]) for i, a in enumerate(flags) if a == '-r']
    ksel = [flags[i + 1] for i, a in enumerate(flags) if a == '-k']
    a, u = bp_expected(rows, '-g' in flags, rsel, ksel)
    path = os.path.join(build.tmpdir(), 'c11bp-%d.xtuml' % os.getpid())
    with open(path, 'w') as f:
        f.write(text)
    try:
        if inprocess:
            import bridgepoint.consistency_check as bcc
            got = bcc.main(list(flags) + [path])
            if got != a + u:
                raise Violation('bp-cli-main-count-wrong', case, 'main = %r, present %d+%d' % (got, a, u))
        else:
            p = subprocess.run([sys.executable, '-m', 'bridgepoint.consistency_check'] + list(flags) + [path],
                               env=build.python_env(), stdin=subprocess.DEVNULL, stdout=subprocess.PIPE,
                               stderr=subprocess.PIPE, timeout=300)
            if p.returncode not in (0, 1) or (p.returncode != 0) != (a + u > 0):
                raise Violation('bp-cli-exit-status-wrong', case, 'exit %d with %d+%d present: %s'
                                % (p.returncode, a, u, p.stderr[-200:]))
    finally:
        os.unlink(path)
    return a, u


def selftest():
    # hand-counted dirty population (DESIGN.md 4.1): 1:M with a duplicate referred key and a dangling key
    js = c02_links.FIXED['one2many']
    rows = [['A', {'Id': 1}], ['A', {'Id': 1}], ['A', {'Id': 2}],
            ['B', {'Id': 5, 'A_Id': 1}], ['B', {'Id': 6, 'A_Id': 9}], ['B', {'Id': 6, 'A_Id': 0}]]
    sh, _ = popgen.shadow_from_rows(js, rows)
    # B5 is linked to both A(1): B->A end over-populated (1); B6/B6' have no A: target end unconditional -> 2
    assert sh.count_link_violations(0, 'tgt') == 3, sh.count_link_violations(0, 'tgt')
    # A side: src end is MC -> never violated
    assert sh.count_link_violations(0, 'src') == 0
    # identifiers: A.Id duplicates 1 -> 1 ; (B has no declared identifier in this schema)
    assert expected_uniqueness(sh) == 1, expected_uniqueness(sh)


def run(ctx):
    res = Res()

    def body(case):
        try:
            run_case(case, res)
        except Violation:
            raise
        except Exception as e:
            raise Violation('harness-exception:' + exc_bucket(e), case, repr(e))

    hyp_run(ctx, res, cases(), body, ctx.pick(1500, 4000), label='models')
    if ctx.shard == 0:
        def cli_body(c):
            if 'bp' in c:
                a, u = run_bp_case(c['bp'], c['flags'], c['inprocess'])
                res.case(c, a + u > 0, sample=c, classes=('bridgepoint-cli',))
            else:
                w = run_cli_case(c['rows'], c['args'])
                res.case(c, w > 0, sample=c, classes=('xtuml-cli-subprocess',))
        todo = [{'rows': r, 'args': a} for r, a in cli_cases(ctx)]
        bp = [('empty', [], False), ('dup', ['-g'], False), ('clean', ['-g'], True), ('dangling', ['-g'], True),
              ('nullid', [], True), ('dup', ['-g', '-k', 'S_DT'], True), ('dup', ['-g', '-r', '17'], True)]
        if not ctx.quick:
            bp += [('clean', ['-g'], False), ('clean', [], True), ('dangling', ['-g', '-r', '18'], True),
                   ('nullid', ['-g'], False), ('dup', ['-k', 'S_CDT', '-r', '17'], True), ('dangling', [], False)]
        todo += [{'bp': v, 'flags': f, 'inprocess': i} for v, f, i in bp]
        loop_run(ctx, res, todo, cli_body)
    return res


def replay(case):
    if 'bp' in case:
        run_bp_case(case['bp'], case['flags'], case['inprocess'])
    elif 'args' in case:
        run_cli_case(case['rows'], case['args'])
    else:
        run_case(case)
