"""Reference evaluator for OAL over the plain relational shadow (DESIGN.md 2.4).

Executes the harness AST (pbt/oalgen.py dict nodes).  Raises Discard whenever the program is
erroneous or its meaning is not fixed by the language; such cases are never compared.
"""
from .shadow import Shadow, Rejected, Rec
from .gen_schema import default_of


class Discard(Exception):
    def __init__(self, reason):
        Exception.__init__(self, reason)
        self.reason = reason


class _Break(Exception):
    pass


class _Continue(Exception):
    pass


class _Return(Exception):
    def __init__(self, value):
        self.value = value


class _Stop(Exception):
    pass


class World(object):
    """Shadow + id counter that mirrors xtuml.IntegerGenerator consumption by MetaClass.new."""

    def __init__(self, schema_js):
        self.sh = Shadow(schema_js)
        self.next_id = 1

    def create(self, cname, vals=None):
        sc = self.sh.schema
        cname = sc.cls(cname)['name']
        rec_vals = {}
        for n, t in sc.plain_attrs(cname):
            if t.upper() == 'UNIQUE_ID':
                rec_vals[n] = self.next_id
                self.next_id += 1
            else:
                rec_vals[n] = default_of(t)
        for k, v in (vals or {}).items():
            rec_vals[self.sh._canon(cname, k)] = v
        return self.sh.new(cname, rec_vals)


class Evaluator(object):
    FUEL = 10000

    def __init__(self, world, callables=None, params=None, self_inst=None, depth=0):
        self.w = world
        self.sh = world.sh
        self.blocks = [{}]
        self.fuel = [self.FUEL]
        self.callables = callables          # object with .invoke(kind, node, args, evaluator) for C15
        self.params = params or {}
        self.self_inst = self_inst
        self.depth = depth
        self.in_logical = 0
        self.in_lazy_where = 0
        self.derived_target = None
        self.derived_value = None

    # -- variables -----------------------------------------------------------------------------------
    def lookup(self, name):
        for b in reversed(self.blocks):
            if name in b:
                return b[name]
        if self.callables is not None:
            c = self.callables.named_constant(name)
            if c is not NotImplemented:
                return c
        raise Discard('read of undefined variable')

    def assign(self, name, value):
        for b in reversed(self.blocks):
            if name in b:
                b[name] = value
                return
        self.blocks[-1][name] = value

    def tick(self):
        f = self.fuel
        f[0] -= 1
        if f[0] < 0:
            raise Discard('step fuel exhausted')

    # -- statements -------------------------------------------------------------------------------------
    def run_body(self, body):
        """-> return value (None when no return statement is executed)."""
        try:
            self.block(body['block'])
        except _Return as r:
            return r.value
        except _Stop:
            return None
        except (_Break, _Continue):
            raise Discard('break/continue outside of a loop')
        return None

    def block(self, b):
        self.blocks.append({})
        try:
            for s in b['statement_list']['children']:
                self.stmt(s)
        finally:
            self.blocks.pop()

    def live(self, v, what='instance'):
        if v is None:
            raise Discard('%s access through an empty handle' % what)
        if not isinstance(v, Rec):
            raise Discard('instance expected')
        if not v.alive:
            raise Discard('use of a deleted instance')
        return v

    def stmt(self, s):
        self.tick()
        t = s['t']
        if t == 'AssignmentNode':
            val = self.expr(s['expression'])
            va = s['variable_access']
            if va['t'] == 'VariableAccessNode':
                self.assign(va['variable_name'], val)
            elif va['t'] == 'FieldAccessNode':
                inst = self.live(self.expr(va['handle']), 'attribute')
                if self.derived_target is not None and inst is self.derived_target[0] and va['name'] == self.derived_target[1]:
                    self.derived_value = val          # the body of a derived attribute assigns its own value
                    return
                name = self.sh._canon(inst.cls, va['name'])
                if name in self.sh.schema.referentials(inst.cls):
                    raise Discard('write to a referential attribute')
                inst.vals[name] = val
            else:
                raise Discard('unsupported assignment target')
        elif t == 'CreateObjectNode':
            self.assign(s['variable_name'], self.w.create(s['key_letter']))
        elif t == 'CreateObjectNoVariableNode':
            self.w.create(s['key_letter'])
        elif t == 'DeleteNode':
            inst = self.live(self.lookup(s['variable_name']) if s['variable_name'].lower() != 'self' else self.self_inst)
            # the instance leaves every link it takes part in (what xtuml.delete documents; BridgePoint's own tools call a
            # program that deletes a related instance erroneous - the generator does it in one deliberate template only)
            self.sh.delete(inst)
        elif t in ('RelateNode', 'UnrelateNode'):
            a = self.live(self._inst(s['from_variable_name']))
            b = self.live(self._inst(s['to_variable_name']))
            rel = int(s['rel_id'][1:])
            phrase = (s.get('phrase') or '').replace("'", '')
            try:
                if t == 'RelateNode':
                    if self.sh.relate(a, b, rel, phrase) == 'noop':
                        raise Discard('relate of an already related pair')
                else:
                    self.sh.unrelate(a, b, rel, phrase)
            except Rejected as r:
                raise Discard('rejected %s (%s)' % (t, r.kind))
        elif t in ('RelateUsingNode', 'UnrelateUsingNode'):
            a = self.live(self._inst(s['from_variable_name']))
            b = self.live(self._inst(s['to_variable_name']))
            u = self.live(self._inst(s['using_variable_name']))
            rel = int(s['rel_id'][1:])
            # `relate a to b across Rn.'p' using l`: l is what a reaches across Rn.'p', and b is what l reaches across Rn.'p'
            # (the phrase tells the two halves of a reflexive linked association apart; elsewhere it is empty)
            phrase = (s.get('phrase') or '').replace("'", '')
            try:
                if t == 'RelateUsingNode':
                    # check both halves before touching anything: an associative link is created as a whole
                    if self.sh.partners_any(u, rel):
                        raise Discard('link instance already in use')
                    r1 = self.sh.relate(a, u, rel, phrase)
                    r2 = self.sh.relate(u, b, rel, phrase)
                    if 'noop' in (r1, r2):
                        raise Discard('relate of an already related pair')
                else:
                    self.sh.unrelate(a, u, rel, phrase)
                    self.sh.unrelate(u, b, rel, phrase)
            except Rejected as r:
                raise Discard('rejected %s (%s)' % (t, r.kind))
        elif t in ('SelectFromNode', 'SelectFromWhereNode'):
            cands = self.sh.live(s['key_letter'])
            if t == 'SelectFromWhereNode':
                lazy = s['cardinality'].lower() != 'many'
                cands = [r for r in cands if self.where(s['where_clause'], r, lazy)]
            self.assign(s['variable_name'], self._card(s['cardinality'], cands))
        elif t in ('SelectRelatedNode', 'SelectRelatedWhereNode'):
            h = self.expr(s['handle'])
            if h is None:
                recs = []
            elif isinstance(h, Rec):
                recs = [self.live(h)]
            elif isinstance(h, list):
                recs = list(h)
                for r in recs:
                    self.live(r)
            else:
                raise Discard('navigation from a non-instance')
            single = not isinstance(h, list)
            for step in s['navigation_chain']['children']:
                rel = int(step['rel_id'][1:])
                try:
                    recs = self.sh.nav(recs, step['key_letter'], rel, (step.get('phrase') or '').replace("'", ''))
                except Rejected:
                    raise Discard('unknown navigation step')
            if t == 'SelectRelatedWhereNode':
                lazy = s['cardinality'].lower() != 'many'
                recs = [r for r in recs if self.where(s['where_clause'], r, lazy)]
            card = s['cardinality'].lower()
            if card == 'one' and len(recs) > 1:
                raise Discard('select one over a multi-valued chain')
            self.assign(s['variable_name'], self._card(card, recs))
        elif t == 'IfNode':
            if self.truth(self.expr(s['expression'])):
                self.block(s['block'])
            else:
                for ei in s['elif_list']['children']:
                    if self.truth(self.expr(ei['expression'])):
                        self.block(ei['block'])
                        break
                else:
                    if s['else_clause'] is not None:
                        self.block(s['else_clause']['block'])
        elif t == 'WhileNode':
            while self.truth(self.expr(s['expression'])):
                self.tick()
                try:
                    self.block(s['block'])
                except _Continue:
                    continue
                except _Break:
                    break
        elif t == 'ForEachNode':
            coll = self.lookup(s['set_variable_name'])
            if not isinstance(coll, list):
                raise Discard('for each over a non-set')
            for r in list(coll):
                self.tick()
                self.assign(s['instance_variable_name'], r)
                try:
                    self.block(s['block'])
                except _Continue:
                    continue
                except _Break:
                    break
        elif t == 'BreakNode':
            raise _Break()
        elif t == 'ContinueNode':
            raise _Continue()
        elif t == 'ControlNode':
            raise _Stop()
        elif t == 'ReturnNode':
            raise _Return(self.expr(s['expression']) if s['expression'] is not None else None)
        elif t == 'InvocationStatementNode':
            self.expr(s['invocation'])
        else:
            raise Discard('statement kind %s not modelled' % t)

    def _inst(self, name):
        if name.lower() == 'self':
            return self.self_inst
        return self.lookup(name)

    def _card(self, card, recs):
        if card.lower() == 'many':
            out = []
            for r in recs:
                if not any(r is o for o in out):
                    out.append(r)
            return out
        return recs[0] if recs else None

    def where(self, clause, rec, lazy=False):
        # how many candidates a 'select any/one ... where' examines is not fixed by the language: a call in
        # such a clause could have effects a different number of times
        self.blocks.append({'selected': rec})
        self.in_lazy_where += 1
        try:
            return self.truth(self.expr(clause))
        finally:
            self.in_lazy_where -= 1
            self.blocks.pop()

    def truth(self, v):
        if not isinstance(v, bool):
            raise Discard('non-boolean condition')
        return v

    # -- expressions ---------------------------------------------------------------------------------------
    def expr(self, e):
        self.tick()
        t = e['t']
        if t == 'IntegerNode':
            return int(e['value'])
        if t == 'RealNode':
            return float(e['value'].rstrip('fFlL'))
        if t == 'StringNode':
            return e['value'][1:-1]
        if t == 'BooleanNode':
            return e['value'].lower() == 'true'
        if t == 'VariableAccessNode':
            return self.lookup(e['variable_name'])
        if t == 'SelectedAccessNode':
            return self.lookup('selected')
        if t == 'SelfAccessNode':
            if self.self_inst is None:
                raise Discard('self outside of an instance context')
            return self.self_inst
        if t == 'ParamAccessNode':
            if e['variable_name'] not in self.params:
                raise Discard('unknown parameter')
            return self.params[e['variable_name']]
        if t == 'FieldAccessNode':
            inst = self.live(self.expr(e['handle']), 'attribute')
            if self.derived_target is not None and inst is self.derived_target[0] and e['name'] == self.derived_target[1]:
                return self.derived_value
            if self.callables is not None:
                if self.callables.is_derived(inst, e['name']):
                    if self.in_logical or self.in_lazy_where:
                        raise Discard('derived attribute read inside a lazily evaluated clause')
                    return self.callables.derived(inst, e['name'], self)
            try:
                v = self.sh.attr(inst, e['name'])
            except KeyError:
                raise Discard('unknown attribute')
            return v
        if t == 'EnumOrNamedConstantNode':
            if self.callables is None:
                raise Discard('no enumerations in this context')
            return self.callables.constant(e['namespace'], e['name'])
        if t == 'UnaryOperationNode':
            op = e['operator'].lower()
            v = self.expr(e['operand'])
            if op == 'not':
                return not self.truth(v)
            if op in ('empty', 'not_empty'):
                if v is not None and not isinstance(v, (Rec, list)):
                    raise Discard('empty on a non-handle')
                isempty = v is None or (isinstance(v, list) and not v)
                return isempty if op == 'empty' else not isempty
            if op == 'cardinality':
                if v is None:
                    return 0
                if isinstance(v, Rec):
                    return 1
                if isinstance(v, list):
                    return len(v)
                raise Discard('cardinality of a non-handle')
            if isinstance(v, bool) or not isinstance(v, (int, float)):
                raise Discard('sign on a non-number')
            return -v if op == '-' else +v
        if t == 'BinaryOperationNode':
            op = e['operator'].lower()
            if op in ('and', 'or'):
                self.in_logical += 1
                try:
                    l = self.truth(self.expr(e['left']))
                    r = self.truth(self.expr(e['right']))     # both operands are evaluated (no call has effects here)
                finally:
                    self.in_logical -= 1
                return (l and r) if op == 'and' else (l or r)
            l = self.expr(e['left'])
            r = self.expr(e['right'])
            return self.binop(op, l, r)
        if t in ('FunctionInvocationNode', 'ImplicitInvocationNode', 'ClassInvocationNode', 'BridgeInvocationNode',
                 'InstanceInvocationNode'):
            if self.callables is None:
                raise Discard('no callables in this context')
            if self.in_logical:
                raise Discard('call inside a logical operand')
            if self.in_lazy_where:
                raise Discard('call inside a where clause (how often and over which extent it runs is not fixed)')
            args = {}
            for p in e['parameter_list']['children']:
                args[p['name']] = self.expr(p['expression'])
            return self.callables.invoke(e, args, self)
        raise Discard('expression kind %s not modelled' % t)

    def binop(self, op, l, r):
        num = lambda v: isinstance(v, (int, float)) and not isinstance(v, bool)
        if op in ('==', '!='):
            if isinstance(l, Rec) or isinstance(r, Rec) or l is None or r is None:
                if not ((isinstance(l, Rec) or l is None) and (isinstance(r, Rec) or r is None)):
                    raise Discard('comparison of a handle with a value')
                eq = l is r
            elif isinstance(l, list) or isinstance(r, list):
                raise Discard('comparison of sets')
            else:
                if type(l) is not type(r) and not (num(l) and num(r)):
                    raise Discard('comparison of different types')
                eq = l == r
            return eq if op == '==' else not eq
        if op in ('<', '<=', '>', '>='):
            if not (num(l) and num(r)):
                raise Discard('ordering of non-numbers')
            return {'<': l < r, '<=': l <= r, '>': l > r, '>=': l >= r}[op]
        if op == '+':
            if isinstance(l, str) and isinstance(r, str):
                return l + r
            if num(l) and num(r):
                return l + r
            raise Discard('+ on mixed types')
        if op in ('-', '*'):
            if not (num(l) and num(r)):
                raise Discard('arithmetic on non-numbers')
            return l - r if op == '-' else l * r
        if op == '/':
            if not (num(l) and num(r)):
                raise Discard('arithmetic on non-numbers')
            if r == 0:
                raise Discard('division by zero')
            if isinstance(l, int) and isinstance(r, int):
                if l % r != 0:
                    raise Discard('integer division with a remainder')
                return l // r
            return l / r
        if op == '%':
            if not (isinstance(l, int) and isinstance(r, int)) or isinstance(l, bool) or isinstance(r, bool):
                raise Discard('% on non-integers')
            if r == 0:
                raise Discard('division by zero')
            if l < 0 or r < 0:
                raise Discard('% with a negative operand')
            return l % r
        raise Discard('operator %s not modelled' % op)
