"""C12 - loading fails only in documented ways and never half-applies input."""
import os
import re

from hypothesis import strategies as st

import xtuml
from . import gen_schema, popgen, build
from .core import Violation, hyp_run, loop_run, Res, exc_bucket, TimeLimit
from . import fuzz
from .gen_schema import Schema, schema_statements, insert_statement
from .c03_loadlinks import canon, rows_statements

PROPERTY = 'C12'
RULE = ('inputs to ModelLoader.input followed by build_metamodel: (a) arbitrary unicode text, (b) token soup over the '
        "SQL dialect's token alphabet, (c) single-edit mutants of valid generated files and of chunks of the shipped "
        '.xtuml models (delete / duplicate / swap a token, flip a value to another lexical class incl. malformed '
        'guids, truncate, drop or add a name or a value in a named insert, rename a key attribute in CREATE ROP, '
        'change a type name), (d) histories of 2-6 accepted / rejected inputs and builds on one loader, (e) pumped '
        'inputs (quote, double quote, --, -, digit and identifier runs of length 2^k, k <= 14). Oracle: input returns or '
        'raises ParsingException; after a rejected input the structural snapshot of loader.statements is unchanged '
        'and equals (file name, line and offset of every statement included) that of a fresh loader fed only the accepted '
        'inputs, every later rejection carries the diagnostic that fresh loader gives, and every later build equals (result or '
        'exception text) the build of that fresh loader; build returns or '
        'raises ParsingException / MetaException (sub)classes; every call returns within a 10 s alarm. '
        '(f) an atheris / libFuzzer campaign (xtuml.load grammar actions, PLY driver and lexer callbacks instrumented; token-level mutator mixed with byte mutations; seeds: '
        'small valid files and chunks of the shipped models, one thorough shard in four starts empty) whose inputs are split at U+001E into up to three inputs of one history, oracle inside the target. '
        'non-trivial = input that lexes completely and is rejected by the grammar, or is accepted with >= 1 statement '
        'and then built; histories with a rejected input between two accepted ones; distinct = by input text.')
ASSUMPTIONS = [
    'bounded time is decided by a 10 s SIGALRM per call on inputs <= 64 kB (typical call: < 5 ms)',
]

DOCUMENTED_BUILD = (xtuml.ParsingException, xtuml.MetaException)

TOK = re.compile(r"""(?P<ws>[ \t\r\n\x0c]+)|(?P<comment>--[^\n]*\n?)|(?P<string>'(?:''|[^'])*')|(?P<guid>"[^"\n]*")|"""
                 r"""(?P<fraction>\d+\.\d+)|(?P<number>\d+)|(?P<word>[A-Za-z_][A-Za-z0-9_]*)|(?P<punct>.)""", re.S)

SOUP = ['CREATE', 'TABLE', 'INSERT', 'INTO', 'VALUES', 'ROP', 'REF_ID', 'FROM', 'TO', 'PHRASE', 'UNIQUE', 'INDEX', 'ON',
        'TRUE', 'FALSE', 'create', 'Insert', 'X', 'Y', 'Id', 'INTEGER', 'STRING', 'UNIQUE_ID', 'BOOLEAN', 'REAL', 'M',
        'MC', '1', '1C', '0', '42', '007', '1.5', '0.0', '-', '(', ')', ',', ';', "'s'", "''", "'it''s'", "'",
        '"00000000-0000-0000-0000-000000000001"', '"x"', '""', '"', 'R1', 'R', 'R01', '-- c\n', '--', '\n', '\t', '*',
        '.', '1e5', '$', 'é', '_a', '1a', "'100%'", "'%s %d'", '"%d-%(x)s"', '%', "'%%'", '{0}', "'{}'", '\\']


def tokenize(text):
    return [(m.lastgroup, m.group()) for m in TOK.finditer(text)]


def lexes_completely(text):
    """True if the text contains only characters the dialect can lex (harness-side approximation)."""
    for k, v in tokenize(text):
        if k == 'punct' and v not in '(),;-':
            return False
        if k == 'guid' and '\\' in v:
            return False
    return text.count("'") % 2 == 0 or True


def snapshot(loader):
    out = []
    for s in loader.statements:
        d = dict((k, _plain(v)) for k, v in sorted(vars(s).items()))
        out.append((type(s).__name__, d))
    return out


def _plain(v):
    if isinstance(v, (list, tuple)):
        return [_plain(x) for x in v]
    return v


def guarded(case, what, fn, *args):
    """Run a loader call under the alarm; returns (result, exception)."""
    try:
        with TimeLimit(10):
            return fn(*args), None
    except TimeLimit.Expired:
        raise Violation('%s-does-not-terminate' % what, case, '%s did not return within 10 s' % what)
    except Exception as e:
        return None, e


def feed(case, loader, text, accepted=None):
    """-> True if accepted; raises Violation on an undocumented outcome."""
    before = snapshot(loader)
    _, e = guarded(case, 'input', loader.input, text)
    if e is None:
        return True
    if not isinstance(e, xtuml.ParsingException):
        raise Violation('input-undocumented-exception:' + exc_bucket(e), case, repr(e))
    if snapshot(loader) != before:
        raise Violation('rejected-input-changed-loader', case, 'loader.statements changed although input raised %r' % (e,))
    if accepted is not None:
        # "as if the rejected call had not happened": a loader that saw only the accepted inputs rejects this text in
        # exactly the same way (same exception, same diagnostic incl. the position it names)
        fresh = fresh_loader(case, accepted)
        _, e2 = guarded(case, 'input', fresh.input, text)
        if type(e2) is not type(e) or str(e2) != str(e):
            raise Violation('rejection-differs-after-rejected-input', case,
                            'loader with rejected inputs in its history raised %r, a loader fed the accepted inputs only %r' % (e, e2))
    return False


def fresh_loader(case, accepted):
    fresh = xtuml.ModelLoader()
    for t in accepted:
        _, e = guarded(case, 'input', fresh.input, t)
        if e is not None:
            raise Violation('accepted-input-rejected-by-fresh-loader', case, repr(e))
    return fresh


def build_of(case, loader, what='build'):
    """-> (metamodel or None, exception class name or None)"""
    m, e = guarded(case, what, loader.build_metamodel, xtuml.IntegerGenerator())
    if e is None:
        return m, None
    if not isinstance(e, DOCUMENTED_BUILD):
        raise Violation('build-undocumented-exception:' + exc_bucket(e), case, repr(e))
    return None, '%s: %s' % (type(e).__name__, e)


def run_history(case, res=None):
    """case: {'inputs': [text...], 'builds': [bool...]}"""
    loader = xtuml.ModelLoader()
    accepted = []
    n_rej_between = 0
    n_rejected = 0
    last_rejected = False
    any_statement = False
    for k, text in enumerate(case['inputs']):
        ok = feed(case, loader, text, accepted if n_rejected else None)
        n_rejected += 0 if ok else 1
        if ok:
            if last_rejected and accepted:
                n_rej_between += 1
            accepted.append(text)
            last_rejected = False
        else:
            last_rejected = True
        if case['builds'][k % len(case['builds'])] or k == len(case['inputs']) - 1:
            m, ex = build_of(case, loader)
            fresh = fresh_loader(case, accepted)
            if snapshot(loader) != snapshot(fresh):
                # includes the file name / line / offset recorded with every accepted statement
                d = [(a, b) for a, b in zip(snapshot(loader), snapshot(fresh)) if a != b][:1]
                raise Violation('statements-differ-after-rejected-input', case,
                                'loader.statements differ from those of a loader fed the accepted inputs only, e.g. %r' % (d,))
            m2, ex2 = build_of(case, fresh, 'fresh-build')
            if ex != ex2:
                raise Violation('build-differs-after-rejected-input', case,
                                'loader raised %r, fresh loader with the accepted inputs %r' % (ex, ex2))
            if m is not None:
                c1, c2 = _canon(m), _canon(m2)
                if c1 != c2:
                    raise Violation('build-differs-after-rejected-input', case, 'canonical forms differ: %r vs %r' % (c1, c2))
                if _ser(m) != _ser(m2):
                    raise Violation('build-differs-after-rejected-input', case, 'serialized text differs')
                if len(loader.statements):
                    any_statement = True
    if res is not None:
        texts = case['inputs']
        rejected_by_grammar = any(lexes_completely(t) for t in texts) and len(accepted) < len(texts)
        nt = rejected_by_grammar or (any_statement and bool(accepted)) or n_rej_between > 0
        cl = [case.get('kind', 'history')]
        if len(accepted) < len(texts):
            cl.append('has-rejected-input')
        if accepted and any_statement:
            cl.append('accepted-and-built')
        if n_rej_between:
            cl.append('rejected-between-accepted')
        res.case(case['inputs'], nt, sample={'kind': case.get('kind'), 'inputs': [t[:300] for t in texts]} if nt else None,
                 classes=cl)


def _canon(m):
    # a model built from inconsistent but accepted text (e.g. key lists of different length) may hold
    # attributes that cannot be read; the property only speaks about input/build, so both builds must
    # merely behave alike
    try:
        return canon(m)
    except Exception as e:
        return 'reading the model raised %s' % type(e).__name__


def _ser(m):
    # serialization is C01's subject; here it only serves as a second fingerprint of the built model
    try:
        return xtuml.serialize(m)
    except Exception as e:
        return 'serialize raised %s' % type(e).__name__


# -- generators ----------------------------------------------------------------------------------------------

@st.composite
def valid_text(draw):
    schema_js = draw(gen_schema.schemas(max_classes=3, max_assocs=2, max_extra_attrs=2))
    rows = [list(r) for r in draw(popgen.dirty_rows(schema_js, max_rows=2))]
    sc = Schema(schema_js)
    stm = schema_statements(schema_js) + rows_statements(sc, rows, draw(st.lists(st.booleans(), min_size=1, max_size=3)), False)
    # further named INSERTs that list only some of the columns of their class (another selection each time)
    for cn, row in rows[:draw(st.integers(0, 3))]:
        cols = [n for n, _t in sc.attrs(cn) if n in row]
        if len(cols) >= 2:
            keep = draw(st.lists(st.sampled_from(cols), min_size=1, max_size=len(cols) - 1, unique=True))
            stm.append('INSERT INTO %s (%s) VALUES (%s);' % (cn, ', '.join(keep), ', '.join(
                gen_schema.sql_value(sc.attr_type(cn, n), row[n]) for n in keep)))
    order = draw(st.permutations(list(range(len(stm)))))
    return '\n'.join(stm[i] for i in order) + '\n'


_seed_chunks = []


def seed_chunks():
    if not _seed_chunks:
        for name in ('Simple_Model.xtuml', 'Globals.xtuml'):
            text = open(os.path.join(build.VERIF, 'seeds', name)).read()
            parts = text.split(';\n')
            for i in range(0, len(parts) - 1, 3):
                _seed_chunks.append(';\n'.join(parts[i:i + 3]) + ';\n')
    return _seed_chunks


FLIPS = ['1', '-1', '1.5', "'s'", '"00000000-0000-0000-0000-000000000002"', '"not-a-guid"', '""', 'TRUE', 'false',
         "''", '0', '99999999999999999999999', '"00000000-0000-0000-0000-00000000000"', "'1'",
         "'100%'", "'%s'", '"%d"', "'{0}%(a)s'"]


@st.composite
def mutated(draw, base):
    text = draw(base)
    toks = tokenize(text)
    idx = [i for i, (k, v) in enumerate(toks) if k not in ('ws', 'comment')]
    if not idx:
        return text
    kind = draw(st.sampled_from(['delete', 'duplicate', 'swap', 'flip', 'truncate', 'dropvalue', 'addvalue', 'rename',
                                 'retype', 'flip', 'flip', 'unknown-type', 'unknown-type']))
    i = idx[draw(st.integers(0, len(idx) - 1))]
    vals = [j for j in idx if toks[j][0] in ('string', 'guid', 'fraction', 'number') or toks[j][1].upper() in ('TRUE', 'FALSE')]
    words = [j for j in idx if toks[j][0] == 'word']
    if kind == 'delete':
        del toks[i]
    elif kind == 'duplicate':
        toks.insert(i, toks[i])
        toks.insert(i, ('ws', ' '))
    elif kind == 'swap':
        j = idx[draw(st.integers(0, len(idx) - 1))]
        toks[i], toks[j] = toks[j], toks[i]
    elif kind == 'flip' and vals:
        j = vals[draw(st.integers(0, len(vals) - 1))]
        toks[j] = ('x', draw(st.sampled_from(FLIPS)))
    elif kind == 'truncate':
        return text[:draw(st.integers(0, len(text)))]
    elif kind == 'dropvalue' and vals:
        j = vals[draw(st.integers(0, len(vals) - 1))]
        # remove the value and one adjacent comma
        nxt = [k for k in idx if k > j]
        if nxt and toks[nxt[0]][1] == ',':
            del toks[nxt[0]]
        del toks[j]
    elif kind == 'addvalue' and vals:
        j = vals[draw(st.integers(0, len(vals) - 1))]
        toks.insert(j, ('x', draw(st.sampled_from(FLIPS)) + ', '))
    elif kind == 'unknown-type':
        # the declared type of one attribute (plain, identifying or referential alike) becomes a name the library does not know
        tys = [j for j in words if toks[j][1].upper() in ('BOOLEAN', 'INTEGER', 'REAL', 'STRING', 'UNIQUE_ID')]
        if tys:
            j = tys[draw(st.integers(0, len(tys) - 1))]
            toks[j] = ('word', draw(st.sampled_from(['NOPE', 'DATE', 'int', 'UNIQUEID', 'void', 'inst_ref'])))
    elif kind in ('rename', 'retype') and words:
        j = words[draw(st.integers(0, len(words) - 1))]
        toks[j] = ('word', draw(st.sampled_from(['Nope', 'INTEGER', 'STRING', 'DATE', 'X', 'self', 'Id', 'M', '1C', 'R7'])))
    return ''.join(v for _k, v in toks)


def soup():
    return st.lists(st.sampled_from(SOUP), min_size=1, max_size=40).map(lambda ts: ' '.join(ts))


def any_input():
    valid = valid_text()
    seeds = st.sampled_from(seed_chunks())
    return st.one_of(st.text(max_size=200), soup(), valid, mutated(valid), mutated(valid), mutated(seeds), seeds)


@st.composite
def histories(draw):
    n = draw(st.integers(1, 6))
    ins = [draw(any_input()) for _ in range(n)]
    return {'kind': 'history', 'inputs': ins, 'builds': draw(st.lists(st.booleans(), min_size=1, max_size=4))}


def single(kind, strat):
    return strat.map(lambda t: {'kind': kind, 'inputs': [t], 'builds': [True]})


PUMPS = ["'", '"', '--', '-', '9', 'a', '(', ')', ',', ';', "''", "' '", '1.', '.5', '"\\', 'R1', '1C', '\n', '-- \n',
         'INSERT INTO X VALUES (', "INSERT INTO X VALUES ('a", '1,', "'a',", 'CREATE TABLE X (a b,', '\x00', 'é']


# prefix + unit * n + suffix: unterminated literals with long bodies are where overlapping alternatives blow up
FRAMED = [("'", 'a', ''), ("'", "a''", ''), ("'", "''", ''), ("'", ' ', ''), ("'", 'a', '\n'), ('"', 'a', ''),
          ('"', '\\a', ''), ('"', 'a', '\n'), ('--', 'a', ''), ('--', '-', ''), ('', '9', '.'), ('', '9', '.x'),
          ('1.', '9', 'x'), ('R', '9', 'x'), ("INSERT INTO X VALUES ('", 'b', ''), ("INSERT INTO X VALUES ('", "b'' ", ');'),
          ('CREATE TABLE ', 'T', ' ('), ("'", '\n', '')]


def pump_cases(ctx):
    for pre, unit, suf in FRAMED:
        for k in ((5, 8, 12) if ctx.quick else (3, 5, 6, 8, 10, 12, 14)):
            yield {'kind': 'pumped', 'inputs': [pre + unit * (2 ** k) + suf], 'builds': [True], 'pump': [pre, unit, suf, k]}
    for c in _pump_cases(ctx):
        yield c


def _pump_cases(ctx):
    ks = (4, 8, 12) if ctx.quick else (2, 4, 6, 8, 10, 12, 14)
    for p in PUMPS:
        for k in ks:
            n = 2 ** k
            if len(p) * n > 70000:
                continue
            yield {'kind': 'pumped', 'inputs': [p * n], 'builds': [True], 'pump': [p, k]}
            if 6 * n <= 64000:      # the stated domain of the time bound: inputs <= 64 kB
                yield {'kind': 'pumped', 'inputs': ['INSERT INTO X VALUES (' + ("'a', " * n) + '1);'], 'builds': [True], 'pump': ['values', k]}


def selftest():
    assert [k for k, _ in tokenize("INSERT INTO X VALUES (1, 'a''b', \"g\", 1.5); -- c\n")] .count('string') == 1
    l = xtuml.ModelLoader()
    l.input('CREATE TABLE X (Id INTEGER);')
    assert snapshot(l) == [('CreateClassStmt', {'attributes': [['Id', 'INTEGER']], 'filename': '<string>', 'kind': 'X',
                                                'lineno': 1, 'offset': 0})], snapshot(l)


def run(ctx):
    res = Res()

    def body(case):
        try:
            run_history(case, res)
        except Violation:
            raise
        except Exception as e:
            raise Violation('harness-exception:' + exc_bucket(e), case, repr(e))

    valid = valid_text()
    hyp_run(ctx, res, single('text', st.text(max_size=300)), body, ctx.pick(500, 3000), label='text')
    hyp_run(ctx, res, single('soup', soup()), body, ctx.pick(700, 4000), label='soup')
    hyp_run(ctx, res, single('mutant', mutated(valid)), body, ctx.pick(900, 5000), label='mutants')
    hyp_run(ctx, res, single('seed-mutant', mutated(st.sampled_from(seed_chunks()))), body, ctx.pick(300, 2000), label='seedmutants')
    hyp_run(ctx, res, histories(), body, ctx.pick(300, 2000), label='histories')
    if ctx.shard == 0:
        loop_run(ctx, res, pump_cases(ctx), body)
    # coverage-guided campaign: 1-3 inputs (separated by U+001E) fed to one loader with a build after each, same oracle
    fuzz.fuzz_run(ctx, res, 'sql', ctx.pick(6000, 150000), 'sql', empty_corpus=(not ctx.quick and ctx.shard % 4 == 3))
    return res


MIN_FRACTIONS = {'has-rejected-input': 0.2, 'accepted-and-built': 0.1}


def replay(case):
    run_history(case)
