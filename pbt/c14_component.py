"""C14 - component extraction mirrors the BridgePoint class model."""
import os
import sys

from hypothesis import strategies as st

import xtuml
from bridgepoint import ooaofooa
from . import bpmodel, bpgen, build, oalsyn
from .oalsyn import Tape
from .core import Violation, hyp_run, Res, exc_bucket, sha

PROPERTY = 'C14'
RULE = ('Hypothesis: abstract class diagrams (classes with ordered attributes over core / enumeration / user-defined / '
        'unsupported types, derived attributes, 1-3 identifiers, simple / reflexive / linked / reflexive-linked / '
        'sub-supertype relationships with drawn multiplicity, conditionality and phrases, nested packages, a component, '
        'classes outside it) are turned into ooaofooa rows by the harness (own id allocation, rows written in a drawn '
        'order) and, independently, into the expected class/identifier/association description; 1-6 edits (rename / '
        'retype / reorder attribute, toggle multiplicity or conditionality, change phrase, enumerators, user types, '
        'move class, add/remove derived and unsupported attributes) are applied to the diagram - also to the diagram '
        'lifted from the shipped Simple_Model.xtuml by the harness reader - and the comparison repeated. Routes: '
        'ModelLoader.build_component(name), build_component() (whole model), mk_component(m, c_c), '
        'load_component(file, name); derived attributes on/off; gen_sql_schema.main -> file -> xtuml.load_metamodel. '
        'non-trivial = diagram with a relationship whose two ends differ in multiplicity or conditionality and a class '
        'with >= 3 attributes; distinct = by (diagram, configuration).')
ASSUMPTIONS = [
    'the fidelity of synthesised rows to BridgePoint\'s own exporter is assumed (validated on Simple_Model.xtuml by '
    'lift -> rows -> load -> same description)',
    'relationships do not cross the component border; retyping an identifying attribute keeps a supported type',
    'attribute pairs of an association are compared as a set of (referential, identifying) pairs',
]


def cases():
    return st.fixed_dictionaries({'tape': oalsyn.tapes(300, 40), 'edits': oalsyn.tapes(60, 0),
                                  'order': st.lists(st.integers(0, 10 ** 6), min_size=0, max_size=8),
                                  'derived': st.booleans(), 'route': st.sampled_from(['build_component', 'whole', 'mk_component',
                                                                                    'load_component', 'sql-schema']),
                                  'base': st.sampled_from(['synth', 'synth', 'synth', 'simple_model'])})


_simple = {}


def simple_model_diagram():
    if not _simple:
        _simple['D'] = bpmodel.lift(open(os.path.join(build.VERIF, 'seeds', 'Simple_Model.xtuml')).read())
    import copy
    return copy.deepcopy(_simple['D'])


def shuffle(rows, keys):
    """deterministic row order from drawn integers (every order of the rows is a legal file)"""
    rows = list(rows)
    for i, k in enumerate(keys):
        if not rows:
            break
        a, b = k % len(rows), (k // 7 + i) % len(rows)
        rows[a], rows[b] = rows[b], rows[a]
    if keys and keys[0] % 3 == 0:
        rows.reverse()
    return rows


def make_diagram(case):
    if case['base'] == 'simple_model':
        D = simple_model_diagram()
    else:
        D = bpgen.gen_diagram(case['tape'])
    log = []
    if case['edits']:
        D, log = bpgen.edited(D, case['edits'])
    # keep identifying attributes on supported types (see ASSUMPTIONS)
    for ci, c in enumerate(D['classes']):
        for names in c['ids']:
            for n in names:
                a = bpmodel.attr_of(D, ci, n)
                if not a.get('ref') and bpmodel.resolve_core(D, a['type']) is None:
                    a['type'] = 'integer'
    return D, log


def run_case(case, res=None):
    D, log = make_diagram(case)
    info = dict(case, edits_applied=log)

    def fail(bucket, detail):
        raise Violation(bucket, info, detail)

    rows, _ix = bpmodel.to_rows(D)
    rows = shuffle(rows, case['order'])
    text = bpmodel.render(rows)
    route = case['route']
    derived = case['derived']
    comp_name = D['components'][0]['name']
    path = None
    try:
        if route in ('build_component', 'whole', 'mk_component'):
            l = ooaofooa.ModelLoader()
            l.input(text)
            if route == 'build_component':
                m = l.build_component(comp_name, derived_attributes=derived)
                want = bpmodel.expected_component(D, 0, derived)
            elif route == 'whole':
                m = l.build_component(derived_attributes=derived)
                want = bpmodel.expected_component(D, None, derived)
            else:
                mm = l.build_metamodel()
                c_c = mm.select_any('C_C', xtuml.where_eq(Name=comp_name))
                m = ooaofooa.mk_component(mm, c_c, derived)
                want = bpmodel.expected_component(D, 0, derived)
        else:
            path = os.path.join(build.tmpdir(), 'c14-%d-%s.xtuml' % (os.getpid(), sha(case)[:8]))
            with open(path, 'w') as f:
                f.write(text)
            if route == 'load_component':
                m = ooaofooa.load_component(path, comp_name)
                derived = False
                want = bpmodel.expected_component(D, 0, False)
            else:
                out = path + '.sql'
                from bridgepoint import gen_sql_schema
                argv = sys.argv
                sys.argv = ['gen_sql_schema', '-c', comp_name, '-o', out] + (['-d'] if derived else []) + [path]
                try:
                    gen_sql_schema.main()
                finally:
                    sys.argv = argv
                m = xtuml.load_metamodel(out)
                os.unlink(out)
                want = bpmodel.expected_component(D, 0, derived)
    except Violation:
        raise
    except Exception as e:
        fail('%s:exception:%s' % (route, exc_bucket(e)), '%r (edits %r)' % (e, log))
    finally:
        if path and os.path.exists(path):
            os.unlink(path)
    got = bpmodel.describe_component(m)
    if got['classes'] != want['classes']:
        for k in sorted(set(got['classes']) | set(want['classes'])):
            if got['classes'].get(k) != want['classes'].get(k):
                g, w = got['classes'].get(k), want['classes'].get(k)
                if g is None or w is None:
                    fail('class-set', 'class %s: extracted %r, modelled %r' % (k, g, w))
                if sorted(map(tuple, g)) == sorted(map(tuple, w)):
                    fail('attribute-order', '%s: extracted %r, modelled %r' % (k, g, w))
                if [x[0] for x in g] == [x[0] for x in w]:
                    fail('attribute-type', '%s: extracted %r, modelled %r' % (k, g, w))
                fail('attribute-set', '%s: extracted %r, modelled %r' % (k, g, w))
    if got['ids'] != want['ids']:
        fail('identifiers', 'extracted %r, modelled %r' % (got['ids'], want['ids']))
    if got['assocs'] != want['assocs']:
        ga = [a for a in got['assocs'] if a not in want['assocs']]
        wa = [a for a in want['assocs'] if a not in got['assocs']]
        kind = 'count' if len(got['assocs']) != len(want['assocs']) else 'ends'
        if kind == 'ends' and ga and wa:
            g, w = ga[0], wa[0]
            diffs = [i for i in range(len(g)) if g[i] != w[i]]
            names = {2: 'keys', 3: 'many', 4: 'conditional', 5: 'phrase', 7: 'many', 8: 'conditional', 9: 'phrase', 1: 'class', 6: 'class', 0: 'number'}
            kind = '+'.join(sorted(set(names[i] for i in diffs)))
        fail('associations:' + kind, 'extracted only %r, modelled only %r' % (ga, wa))
    if res is not None:
        asym = False
        for r in D['rels']:
            if r['kind'] == 'simple' and (r['part_mult'], r['part_cond']) != (r['form_mult'], r['form_cond']):
                asym = True
            if r['kind'] == 'linked' and (r['one_mult'], r['one_cond']) != (r['oth_mult'], r['oth_cond']):
                asym = True
        nt = asym and any(len(c['attrs']) >= 3 for c in D['classes'])
        cl = ['route-' + route, 'base-' + case['base']] + ['rel-' + r['kind'] for r in D['rels']] + (['edited'] if log else [])
        if derived:
            cl.append('derived-on')
        res.case([D, route, derived, case['order']], nt,
                 sample={'route': route, 'derived': derived, 'edits': log, 'expected': want} if nt and len(repr(want)) < 1700 else None,
                 classes=sorted(set(cl)))


def selftest():
    D = simple_model_diagram()
    want = bpmodel.expected_component(D, 0)
    assert sorted(want['classes']) == ['Assoc_Class', 'Class', 'Reflexive_Class', 'Subtype', 'Supertype']
    assert want['classes']['Class'] == [['Id', 'UNIQUE_ID'], ['Other_Id', 'UNIQUE_ID']]
    # R1 is a reflexive linked association: two halves with swapped phrases
    r1 = [a for a in want['assocs'] if a[0] == 'R1']
    assert len(r1) == 2 and sorted((a[5], a[9]) for a in r1) == [('one', 'other'), ('other', 'one')], r1


def run(ctx):
    res = Res()

    def body(case):
        try:
            run_case(case, res)
        except Violation:
            raise
        except Exception as e:
            raise Violation('harness-exception:' + exc_bucket(e), case, repr(e))

    hyp_run(ctx, res, cases(), body, ctx.pick(500, 3000), label='diagrams')
    return res


def replay(case):
    run_case(case)
