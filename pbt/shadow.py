"""Plain-Python relational shadow model (DESIGN.md 2.2).

Independent of pyxtuml: records, per-association pair lists, navigation by
relational composition, referential attribute derivation, multiplicity rules,
key-join, query filtering and stable sorting.
"""
from .gen_schema import Schema, is_null


class Rejected(Exception):
    """The operation must be rejected; .kind names the documented exception."""

    def __init__(self, kind, why=''):
        Exception.__init__(self, '%s %s' % (kind, why))
        self.kind = kind


class Rec(object):
    __slots__ = ('cls', 'idx', 'vals', 'alive')

    def __init__(self, cls, idx, vals):
        self.cls = cls
        self.idx = idx          # global creation index
        self.vals = vals        # canonical attr name -> value (non-referential attributes)
        self.alive = True

    def __repr__(self):
        return '%s#%d' % (self.cls, self.idx)


class Shadow(object):
    def __init__(self, schema_js):
        self.schema = Schema(schema_js)
        self.recs = []                                  # all records ever created
        self.pool = dict((c['name'].upper(), []) for c in self.schema.classes)
        self.links = [[] for _ in self.schema.assocs]   # (src_rec, tgt_rec) in insertion order

    # -- instances ----------------------------------------------------------
    def new(self, cname, vals):
        r = Rec(self.schema.cls(cname)['name'], len(self.recs), dict(vals))
        self.recs.append(r)
        self.pool[cname.upper()].append(r)
        return r

    def live(self, cname):
        return list(self.pool[cname.upper()])

    def delete(self, r):
        if not r.alive:
            raise Rejected('DeleteException', 'already deleted')
        r.alive = False
        self.pool[r.cls.upper()].remove(r)
        for i in range(len(self.links)):
            self.links[i] = [(s, t) for (s, t) in self.links[i] if s is not r and t is not r]

    # -- link resolution ------------------------------------------------------
    def resolve(self, k1, k2, rel, phrase):
        """-> list of (assoc index, forward?) ; forward = k1 is the src (referring) end."""
        out = []
        for i, a in enumerate(self.schema.assocs):
            if a['rel'] != rel:
                continue
            if a['src'].upper() == k1.upper() and a['tgt'].upper() == k2.upper() and a['src_phrase'] == phrase:
                out.append((i, True))
            if a['tgt'].upper() == k1.upper() and a['src'].upper() == k2.upper() and a['tgt_phrase'] == phrase:
                out.append((i, False))
        return out

    def _pair(self, x, y, rel, phrase):
        cands = self.resolve(x.cls, y.cls, rel, phrase)
        if not cands:
            raise Rejected('UnknownLinkException')
        if len(cands) > 1:
            raise AssertionError('ambiguous link in generated schema: %r' % (cands,))
        i, fwd = cands[0]
        return (i, x, y) if fwd else (i, y, x)

    def relate(self, x, y, rel, phrase=''):
        i, s, t = self._pair(x, y, rel, phrase)
        a = self.schema.assocs[i]
        if (s, t) in [(p, q) for p, q in self.links[i]]:
            return 'noop'
        if any(p is s for p, q in self.links[i]) and not a['tgt_many']:
            raise Rejected('RelateException', 'referring instance already has a partner')
        if any(q is t for p, q in self.links[i]) and not a['src_many']:
            raise Rejected('RelateException', 'referred instance already has a partner')
        self.links[i].append((s, t))
        return 'linked'

    def unrelate(self, x, y, rel, phrase=''):
        i, s, t = self._pair(x, y, rel, phrase)
        for k, (p, q) in enumerate(self.links[i]):
            if p is s and q is t:
                del self.links[i][k]
                return
        raise Rejected('UnrelateException')

    def partners_any(self, r, rel):
        for i, a in enumerate(self.schema.assocs):
            if a['rel'] == rel and any(p is r or q is r for p, q in self.links[i]):
                return True
        return False

    # -- reads ------------------------------------------------------------------
    def partners(self, i, r, forward):
        """forward: r is on the src end, result = its tgt partners, in link order."""
        if forward:
            return [t for (s, t) in self.links[i] if s is r]
        return [s for (s, t) in self.links[i] if t is r]

    def nav(self, recs, kind, rel, phrase=''):
        """Relational composition with duplicate-free union in encounter order.
        Handles the class->class hop across an association class."""
        out = []
        for r in recs:
            for p in self.nav1(r, kind, rel, phrase):
                if not any(p is o for o in out):
                    out.append(p)
        return out

    def nav1(self, r, kind, rel, phrase=''):
        cands = self.resolve(r.cls, kind, rel, phrase)
        res = []
        if cands:
            for i, fwd in cands:
                for p in self.partners(i, r, fwd):
                    if not any(p is o for o in res):
                        res.append(p)
            return res
        # two hops through an association class: r -> link class -> kind
        for i, a in enumerate(self.schema.assocs):
            if a['rel'] != rel or a.get('shape') != 'assoc':
                continue
            if a['tgt'].upper() == r.cls.upper() and a['tgt_phrase'] == phrase:
                for j, b in enumerate(self.schema.assocs):
                    if j != i and b['rel'] == rel and b['src'] == a['src'] and \
                            b['tgt'].upper() == kind.upper() and b['src_phrase'] == phrase:
                        for lk in self.partners(i, r, False):
                            for p in self.partners(j, lk, True):
                                if not any(p is o for o in res):
                                    res.append(p)
                        return res
        raise Rejected('UnknownLinkException')

    def attr_values(self, r, name):
        """Set of acceptable values for reading attribute `name` of r.

        Plain attribute: its stored value.  Referential attribute: the identifying
        value of the linked instance; unset (None) when unlinked.  A referential
        attribute shared by several associations may read through any linked one.
        """
        refs = self.schema.referentials(r.cls)
        cname = self._canon(r.cls, name)
        if cname not in refs:
            return [r.vals.get(cname)]
        vals = []
        for i, tk in refs[cname]:
            ps = self.partners(i, r, True)
            if ps:
                for v in self.attr_values(ps[0], tk):
                    vals.append(v)
        return vals or [None]

    def attr(self, r, name):
        return self.attr_values(r, name)[0]

    def _canon(self, cname, aname):
        for n, _ in self.schema.attrs(cname):
            if n.upper() == aname.upper():
                return n
        raise KeyError((cname, aname))

    # -- canonical observable state ----------------------------------------------
    def state(self):
        st = {'instances': {}, 'links': []}
        for c in self.schema.classes:
            st['instances'][c['name']] = [r.idx for r in self.live(c['name'])]
        for i, a in enumerate(self.schema.assocs):
            fwd = {}
            bwd = {}
            for s, t in self.links[i]:
                fwd.setdefault(s.idx, []).append(t.idx)
                bwd.setdefault(t.idx, []).append(s.idx)
            st['links'].append({'fwd': fwd, 'bwd': bwd})
        return st

    # -- consistency counting (C11 oracle) ---------------------------------------
    def count_link_violations(self, i, end):
        """end='src': for every live tgt-class instance count its src partners
        against (src_many, src_cond); end='tgt': the opposite direction."""
        a = self.schema.assocs[i]
        n = 0
        if end == 'src':
            for r in self.live(a['tgt']):
                k = len(self.partners(i, r, False))
                if (k < 1 and not a['src_cond']) or (k > 1 and not a['src_many']):
                    n += 1
        else:
            for r in self.live(a['src']):
                k = len(self.partners(i, r, True))
                if (k < 1 and not a['tgt_cond']) or (k > 1 and not a['tgt_many']):
                    n += 1
        return n

    def count_association_violations(self, rel=None):
        n = 0
        for i, a in enumerate(self.schema.assocs):
            if rel is None or a['rel'] == rel:
                n += self.count_link_violations(i, 'src') + self.count_link_violations(i, 'tgt')
        return n


def key_join(schema, rows_by_class):
    """Loader oracle (C03): rows_by_class: class -> list of dict(attr -> value incl. referential).
    Returns per association the set of (src_row_index, tgt_row_index) pairs that must be linked:
    all referring values non-null and equal to the referred values."""
    out = []
    for a in schema.assocs:
        pairs = []
        srows = rows_by_class.get(a['src'].upper(), [])
        trows = rows_by_class.get(a['tgt'].upper(), [])
        for si, s in enumerate(srows):
            ok = True
            for sk in a['src_keys']:
                if is_null(schema.attr_type(a['src'], sk), s.get(sk)):
                    ok = False
            if not ok:
                continue
            for ti, t in enumerate(trows):
                if all(_same(s.get(sk), t.get(tk)) for sk, tk in zip(a['src_keys'], a['tgt_keys'])) and \
                        not any(is_null(schema.attr_type(a['tgt'], tk), t.get(tk)) for tk in a['tgt_keys']):
                    pairs.append((si, ti))
        out.append(pairs)
    return out


def _same(a, b):
    return a is not None and b is not None and a == b
