"""Driver for the coverage-guided campaigns (pbt.fuzzproc): one sub-process per call, results merged into the shard's Res."""
import json
import os
import shutil
import subprocess
import sys

from . import build
from .core import Violation

DEPS = os.path.join(build.VERIF, '.deps')


def available():
    return os.path.isdir(os.path.join(DEPS, 'atheris'))


def fuzz_run(ctx, res, target, execs, label, empty_corpus=False, timeout_s=None):
    """Runs one campaign; its violations are added to res under their own buckets (prefix kept as reported by the oracle)."""
    if not available():
        # setup_cmd installs atheris from the offline wheelhouse; without it the generated-input parts still decide the property
        res.notes.append('coverage-guided part skipped: atheris not installed under .deps (run tools/setup.sh)')
        return
    work = os.path.join(build.tmpdir(), 'fuzz-%s-%d-%s' % (target, ctx.shard, label))
    shutil.rmtree(work, ignore_errors=True)
    os.makedirs(work)
    out = os.path.join(work, 'out.json')
    env = dict(os.environ)
    env['PYTHONPATH'] = DEPS + os.pathsep + build.VERIF
    env['PYTHONHASHSEED'] = '0'
    env['PYTHONDONTWRITEBYTECODE'] = '1'
    cmd = [sys.executable, '-m', 'pbt.fuzzproc', target, '--execs', str(execs), '--seed', str(ctx.derive(4242) % (2 ** 31)),
           '--out', out, '--corpus', os.path.join(work, 'corpus'), '--excluded', '\x1f'.join(sorted(ctx.excluded))]
    if empty_corpus:
        cmd.append('--empty-corpus')
    limit = timeout_s or max(120, execs // 20)
    try:
        p = subprocess.run(cmd, cwd=build.VERIF, env=env, stdin=subprocess.DEVNULL, stdout=subprocess.PIPE,
                           stderr=subprocess.STDOUT, timeout=limit)
        tail = p.stdout.decode('utf-8', 'replace')[-1500:]
        rc = p.returncode
    except subprocess.TimeoutExpired as e:
        tail = (e.stdout or b'').decode('utf-8', 'replace')[-1500:]
        rc = 'time limit of %d s' % limit
    try:
        with open(out) as f:
            stats = json.load(f)
    except Exception:
        raise build.HarnessError('fuzz process (%s) left no result: rc=%r\n%s' % (target, rc, tail))
    finally:
        shutil.rmtree(work, ignore_errors=True)
    if not stats.get('done'):
        if stats.get('violations'):
            pass            # a campaign cut short by what it found still reports it
        elif isinstance(rc, str):
            res.notes.append('coverage-guided campaign %s/%s stopped at its %s after %d executions (inconclusive part, not a verdict)'
                             % (target, label, rc, stats.get('execs', 0)))
        else:
            raise build.HarnessError('fuzz process (%s) ended early: rc=%r after %d executions\n%s' % (target, rc, stats.get('execs', 0), tail))
    name = 'fuzz-' + label
    n = stats.get('execs', 0)
    res.evaluations += n
    res.classes[name] += n
    for k, c in stats.get('outcomes', {}).items():
        res.classes['%s:%s' % (name, k)] += c
    for k, c in stats.get('excluded', {}).items():
        res.excluded[k] += c
    for i, s in enumerate(stats.get('samples', [])[:2]):
        if len(res.samples) < res.MAX_SAMPLES:
            res.samples.append({'kind': name, 'text': s})
    res.notes.append('%s: %d executions, %d distinct inputs, longest %d characters, %.0f s' % (name, n, stats.get('distinct', 0), stats.get('longest', 0), stats.get('wall_s', 0)))
    for v in stats.get('violations', []):
        res.violation(Violation(v['bucket'], v['case'], v['detail']))
