"""C19 - new instances get typed defaults and fresh non-null identifiers."""
from hypothesis import strategies as st

import xtuml
from . import gen_schema
from .core import Violation, hyp_run, loop_run, Res, exc_bucket

PROPERTY = 'C19'
RULE = ('Hypothesis: two or three classes with attributes of every core type written in a drawn letter case '
        '(optionally one referential attribute at a drawn position, optionally an unknown type) and a sequence of '
        '1-8 creations through MetaModel.new / MetaClass.new / calling the metaclass (in a quarter of the cases after the caller '
        'dropped the metamodel and kept only the class handles), each with a drawn prefix of '
        'positional arguments and a drawn subset of keyword arguments (overlapping allowed; keyword names as declared, upper, lower or swapped case); id generator drawn '
        'from IntegerGenerator, UUIDGenerator and a harness IdGenerator subclass replaying a drawn strictly '
        'increasing sequence. Oracle: defaults by type, then positional, then keywords; every defaulted UNIQUE_ID '
        'is non-null, was handed out by the generator and is unused before. Plus stand-alone generators under '
        'drawn peek/next/__next__/iteration sequences against a list model. non-trivial = >= 3 creations on >= 2 '
        'classes with >= 2 UNIQUE_ID attributes and both explicit and defaulted ids; distinct = by case.')
ASSUMPTIONS = [
    'uniqueness is demanded among defaulted ids only (an explicit argument may collide with a generated value)',
    'values passed for a referential attribute match no instance (linking through new() is C03), except the creations that '
    'refer to one prepared instance: over a single-valued end the second of them is rejected, after its defaults were drawn',
    'user generators never yield the null id',
]


class ReplayGen(xtuml.IdGenerator):
    def __init__(self, seq):
        self.seq = list(seq)
        self.k = 0
        self.handed = []
        xtuml.IdGenerator.__init__(self)

    def readfunc(self):
        v = self.seq[self.k] if self.k < len(self.seq) else self.seq[-1] + (self.k - len(self.seq) + 1)
        self.k += 1
        return v


class RecordingUUID(xtuml.UUIDGenerator):
    def __init__(self):
        self.handed = []
        xtuml.UUIDGenerator.__init__(self)

    def next(self):
        v = xtuml.UUIDGenerator.next(self)
        self.handed.append(v)
        return v


@st.composite
def cases(draw):
    ncls = draw(st.integers(2, 3))
    names = gen_schema.uniq_names(draw, gen_schema.CLASS_NAMES, ncls)
    classes = []
    for ci, cn in enumerate(names):
        n = draw(st.integers(1, 6))
        an = gen_schema.uniq_names(draw, gen_schema.ATTR_NAMES, n)
        attrs = []
        for a in an:
            ty = draw(st.sampled_from(gen_schema.CORE_TYPES + ['UNIQUE_ID', 'UNIQUE_ID']))
            attrs.append([a, gen_schema.type_case(draw, ty)])
        classes.append({'name': cn, 'attrs': attrs})
    # optional referential attribute in class 0 referring to class 1's first attribute
    ref = None
    if draw(st.booleans()) and classes[1]['attrs'][0][1].upper() != 'BOOLEAN':
        pos = draw(st.integers(0, len(classes[0]['attrs'])))
        tattr = classes[1]['attrs'][0]
        classes[0]['attrs'].insert(pos, ['Ref_x9', tattr[1]])
        ref = {'pos': pos, 'tgt_attr': tattr[0], 'src_many': draw(st.booleans()), 'clash': draw(st.booleans())}
    unknown = None
    if draw(st.integers(0, 5)) == 0:
        unknown = {'cls': draw(st.integers(0, ncls - 1)), 'type': draw(st.sampled_from(['DATE', 'void', 'int', 'UNIQUEID', '']))}
        c = classes[unknown['cls']]
        c['attrs'].insert(draw(st.integers(0, len(c['attrs']))), ['Unk_q7', unknown['type']])
    gen = draw(st.sampled_from(['int', 'uuid', 'custom']))
    seq = None
    if gen == 'custom':
        seq = sorted(draw(st.sets(st.integers(1, 2 ** 127), min_size=1, max_size=6)))   # the replay generator counts on from the last one
    creations = []
    for _ in range(draw(st.integers(1, 8))):
        ci = draw(st.integers(0, ncls - 1))
        attrs = classes[ci]['attrs']
        npos = draw(st.integers(0, len(attrs))) if draw(st.booleans()) else 0
        pos = []
        for k in range(npos):
            pos.append(draw(value_for(attrs[k], ci, ref)))
        kw = {}
        for k, a in enumerate(attrs):
            if a[0] in ('self', 'kind'):
                continue
            if draw(st.integers(0, 3)) == 0:
                kw[a[0]] = draw(value_for(a, ci, ref))
        cr = {'cls': ci, 'pos': pos, 'kw': kw, 'via': draw(st.sampled_from(['model', 'metaclass', 'call'])),
              # keyword names as declared / in upper case / in lower case / with every letter's case swapped
              'kwcase': draw(st.sampled_from([0, 0, 1, 2, 3]))}
        if ref and ref['clash'] and ci == 0 and draw(st.booleans()):
            # refers to the one existing instance of class 1: the second such creation over a single-valued end is
            # rejected after the defaults were drawn
            cr['refer'] = True
            cr['pos'] = cr['pos'][:ref['pos']]
        creations.append(cr)
    if ref and ref['clash']:
        # ... and the history ends with two referring creations and one that takes every default
        for _ in range(2):
            creations.append({'cls': 0, 'pos': [], 'kw': {}, 'via': draw(st.sampled_from(['model', 'metaclass', 'call'])), 'refer': True})
        creations.append({'cls': draw(st.integers(0, ncls - 1)), 'pos': [], 'kw': {}, 'via': 'model'})
    # the metamodel's generator may be replaced between two creations (metamodel.id_generator is a plain attribute;
    # bridgepoint's Domain is built without one and given one afterwards)
    swap = draw(st.integers(1, len(creations))) if draw(st.integers(0, 2)) == 0 else None
    # loader route: the creations arrive as positional INSERT statements giving the positional values only (no
    # referential, no unknown type); what a short row does not cover is defaulted exactly as by new()
    if ref is None and unknown is None and draw(st.integers(0, 3)) == 0:
        return {'classes': classes, 'ref': ref, 'unknown': unknown, 'gen': gen, 'seq': seq, 'creations': creations,
                'swap': None, 'load': True}
    # the caller may keep nothing but the class handles returned by define_class / find_metaclass
    drop = swap is None and draw(st.integers(0, 3)) == 0
    return {'classes': classes, 'ref': ref, 'unknown': unknown, 'gen': gen, 'seq': seq, 'creations': creations, 'swap': swap,
            'drop': drop}


def value_for(attr, ci, ref):
    name, ty = attr
    if name == 'Ref_x9':
        # a value that matches no instance: class 1 never gets this one
        t = ty.upper()
        return st.just({'UNIQUE_ID': 2 ** 127 + 12345, 'INTEGER': -987654321, 'STRING': 'no such key ☃',
                        'BOOLEAN': True, 'REAL': -12345.678}.get(t, 0))
    if ty.upper() not in gen_schema.CORE_TYPES:
        return st.just(7)
    if ty.upper() == 'UNIQUE_ID':
        return gen_schema.ids(nonzero=True).filter(lambda v: v != 2 ** 127 + 12345)
    if ty.upper() == 'INTEGER':
        return gen_schema.integers().filter(lambda v: v != -987654321)
    if ty.upper() == 'STRING':
        return gen_schema.strings().filter(lambda v: v != 'no such key ☃')
    if ty.upper() == 'REAL':
        return gen_schema.reals().filter(lambda v: v != -12345.678)
    return gen_schema.value_of(ty)


def respell(cr, attrs):
    """keyword arguments under another spelling of the attribute names (names are case-insensitive); left as declared when
    another attribute of the class would answer to the new spelling as well"""
    k = cr.get('kwcase', 0)
    if not k:
        return cr['kw']
    out = {}
    for n, v in cr['kw'].items():
        sp = n.upper() if k == 1 else (n.lower() if k == 2 else n.swapcase())
        if sp in ('self', 'kind') or sum(1 for a in attrs if a[0].upper() == n.upper()) != 1 or sp in out:
            sp = n
        out[sp] = v
    return out


def run_case(case, res=None):
    def fail(bucket, detail):
        raise Violation(bucket, case, detail)

    if case['gen'] == 'int':
        g = xtuml.IntegerGenerator()
    elif case['gen'] == 'uuid':
        g = RecordingUUID()
    else:
        g = ReplayGen(case['seq'])
    m = xtuml.MetaModel(g)
    classes = case['classes']
    for c in classes:
        m.define_class(c['name'], [tuple(a) for a in c['attrs']])
    if case['ref']:
        ass = m.define_association(1, classes[0]['name'], ['Ref_x9'], case['ref'].get('src_many', True), True, '',
                                   classes[1]['name'], [case['ref']['tgt_attr']], False, True, '')
        ass.formalize()
        ass = None
    clash_key = None
    target = None
    n_referring = 0
    if case['ref'] and case['ref'].get('clash') and not case.get('load') and case['ref']['tgt_attr'] not in ('self', 'kind') and \
            not any(t.upper() not in gen_schema.CORE_TYPES for n, t in classes[1]['attrs']):
        tname, tty = [a for a in classes[1]['attrs'] if a[0] == case['ref']['tgt_attr']][0]
        clash_key = {'UNIQUE_ID': 2 ** 100 + 7, 'INTEGER': 424242, 'STRING': 'the one', 'REAL': 424242.5}.get(tty.upper())
        if clash_key is not None:
            target = m.new(classes[1]['name'], **{case['ref']['tgt_attr']: clash_key})
    explicit_ids = set(v for cr in case['creations'] for v in list(cr['pos']) + list(cr['kw'].values()) if isinstance(v, int))
    mcs = [m.find_metaclass(c['name']) for c in classes]
    dropped = bool(case.get('drop')) and not case.get('load') and case.get('swap') is None
    if dropped:
        # only the class handles stay referenced; the classes keep working (and keep using the generator they were given)
        import gc
        m = None
        gc.collect()
    used = set()
    handed_model = []          # for deterministic generators: every value the generator can have produced
    n_uid_total = 0
    uid_slots = 0
    explicit = defaulted = 0
    touched = set()
    created = 0
    swapped = None
    loaded = None
    if case.get('load'):
        # class names / attribute names of the drawn pools may be SQL keywords: only the statements the dialect accepts
        lines = ['CREATE TABLE %s (%s);' % (c['name'], ', '.join('%s %s' % (n, t) for n, t in c['attrs'])) for c in classes]
        for cr in case['creations']:
            c = classes[cr['cls']]
            if cr['pos']:
                lines.append('INSERT INTO %s VALUES (%s);' % (c['name'], ', '.join(
                    gen_schema.sql_value(t, v) for (n, t), v in zip(c['attrs'], cr['pos']))))
        l = xtuml.ModelLoader()
        try:
            l.input('\n'.join(lines))
        except xtuml.ParsingException:
            if res is not None:
                res.discarded['loader route: drawn names are not accepted by the SQL dialect'] += 1
            return
        try:
            m = l.build_metamodel(g)
        except Exception as e:
            fail('load-route-exception:' + exc_bucket(e), '%r\n%s' % (e, '\n'.join(lines)))
        loaded = dict((ci, list(m.select_many(c['name']))) for ci, c in enumerate(classes))
        # every defaulted id of every row was drawn before the first check
        uid_slots = sum(1 for cr in case['creations'] if cr['pos'] for n, t in classes[cr['cls']]['attrs'] if t.upper() == 'UNIQUE_ID')
    if target is not None:
        for n, t in classes[1]['attrs']:
            if t.upper() == 'UNIQUE_ID':
                uid_slots += 1
                used.add(getattr(target, n))
    creations = list(case['creations'])
    if loaded is not None:
        # ... the creations without positional values, and one more instance of every class, go through the API afterwards:
        # their ids are new
        sixdec = lambda v: float('%f' % v) if isinstance(v, float) else v       # the text format carries six decimals
        creations = [dict(cr, kw={}, pos=[sixdec(v) for v in cr['pos']]) for cr in creations if cr['pos']] + \
                    [dict(cr, after_load=True) for cr in creations if not cr['pos']] + \
                    [{'cls': ci, 'pos': [], 'kw': {}, 'via': 'model', 'after_load': True} for ci in range(len(classes))]
    for crk, cr in enumerate(creations):
        if case.get('swap') is not None and crk == case['swap']:
            swapped = (g, g.peek() if case['gen'] != 'uuid' else len(g.handed))
            g = RecordingUUID()
            m.id_generator = g
        c = classes[cr['cls']]
        attrs = c['attrs']
        has_unknown = any(t.upper() not in gen_schema.CORE_TYPES and n != 'Ref_x9' for n, t in attrs)
        mc = mcs[cr['cls']] if dropped else m.find_metaclass(c['name'])
        refer = bool(cr.get('refer')) and clash_key is not None and loaded is None
        if refer:
            cr = dict(cr, kw=dict(cr['kw'], Ref_x9=clash_key))
        expect_reject = refer and n_referring >= 1 and not case['ref'].get('src_many', True)
        # upper bound on generator draws so far: one per non-referential id attribute of every attempt,
        # rejected attempts (unknown type) included
        uid_slots += sum(1 for n, t in attrs if t.upper() == 'UNIQUE_ID' and n != 'Ref_x9')
        try:
            if loaded is not None and not cr.get('after_load'):
                if not loaded[cr['cls']]:
                    fail('load-route-instance-missing', 'class %s has fewer instances than INSERT statements' % c['name'])
                inst = loaded[cr['cls']].pop(0)
                uid_slots -= sum(1 for n, t in attrs if t.upper() == 'UNIQUE_ID' and n != 'Ref_x9')   # counted in total above
            elif cr['via'] == 'model' and not dropped:
                inst = m.new(c['name'], *cr['pos'], **respell(cr, attrs))
            elif cr['via'] in ('metaclass', 'model'):
                inst = mc.new(*cr['pos'], **respell(cr, attrs))
            else:
                inst = mc(*cr['pos'], **respell(cr, attrs))
        except xtuml.MetaException as e:
            if has_unknown or expect_reject:
                continue
            fail('new-raised:' + exc_bucket(e), repr(e))
        except Exception as e:
            if has_unknown:
                fail('unknown-type-wrong-exception:' + type(e).__name__, repr(e))
            fail('new-exception:' + exc_bucket(e), repr(e))
        if has_unknown:
            fail('unknown-type-accepted', 'class %s has an attribute of unknown type but new() returned' % c['name'])
        if expect_reject:
            fail('second-partner-accepted', 'a second %s referring to the same %s over a single-valued end was created' % (c['name'], classes[1]['name']))
        if refer:
            n_referring += 1
        created += 1
        touched.add(cr['cls'])
        for k, (n, t) in enumerate(attrs):
            got = getattr(inst, n)
            if n == 'Ref_x9':
                if refer:
                    if not same(got, clash_key):
                        fail('linked-referential-other-value', '%s reads %r, the referred instance carries %r' % (n, got, clash_key))
                elif got is not None:
                    fail('unlinked-referential-not-unset', '%s reads %r' % (n, got))
                continue
            if n in cr['kw']:
                want, src = cr['kw'][n], 'keyword'
            elif k < len(cr['pos']):
                want, src = cr['pos'][k], 'positional'
            else:
                want, src = None, 'default'
            T = t.upper()
            if T == 'UNIQUE_ID':
                n_uid_total += 1
            if src != 'default':
                if T == 'UNIQUE_ID':
                    explicit += 1
                if not same(got, want):
                    fail('argument-not-applied:%s' % src, '%s.%s = %r, %s argument %r' % (c['name'], n, got, src, want))
                continue
            if T != 'UNIQUE_ID':
                want = gen_schema.default_of(T)
                if not same(got, want):
                    fail('wrong-default:%s' % T, '%s.%s defaults to %r, expected %r' % (c['name'], n, got, want))
                continue
            defaulted += 1
            if got is None or got == 0 or isinstance(got, bool) or not isinstance(got, int):
                fail('defaulted-id-null', '%s.%s defaulted to %r' % (c['name'], n, got))
            if got in used:
                fail('defaulted-id-repeats', '%s.%s = %r was already handed out' % (c['name'], n, got))
            used.add(got)
            if not dropped:
                # ... nor is it carried by any other instance the metamodel holds (those a rejected creation left included)
                for c2 in classes:
                    for other in m.select_many(c2['name']):
                        for n2, t2 in c2['attrs']:
                            if t2.upper() == 'UNIQUE_ID' and n2 != 'Ref_x9' and not (other is inst and n2 == n) and \
                                    getattr(other, n2) == got and got not in explicit_ids:
                                fail('defaulted-id-repeats', '%s.%s = %r is also the %s of another instance of the metamodel' % (c['name'], n, got, n2))
            if swapped is not None:
                if got not in g.handed:
                    fail('defaulted-id-not-from-generator', '%r not produced by the generator installed before this creation' % (got,))
                old, mark = swapped
                now = old.peek() if case['gen'] != 'uuid' else len(old.handed)
                if now != mark:
                    fail('replaced-generator-still-used', 'the replaced generator advanced from %r to %r' % (mark, now))
            elif case['gen'] == 'int':
                # IntegerGenerator hands out 1,2,3..: a fresh default is a positive integer not above the number
                # of id attributes initialised so far
                if not (1 <= got <= uid_slots):
                    fail('defaulted-id-not-from-generator', '%r not in 1..%d' % (got, uid_slots))
            elif case['gen'] == 'custom':
                cand = list(case['seq']) + [case['seq'][-1] + i for i in range(1, 200)]
                if got not in cand:
                    fail('defaulted-id-not-from-generator', '%r not produced by the replay generator' % (got,))
            else:
                if got not in g.handed:
                    fail('defaulted-id-not-from-generator', '%r not produced by the uuid generator' % (got,))
    nt = created >= 3 and len(touched) >= 2 and explicit >= 1 and defaulted >= 1 and \
        sum(1 for c in classes for a in c['attrs'] if a[1].upper() == 'UNIQUE_ID') >= 2
    if res is not None:
        cl = ['gen-' + case['gen']]
        if swapped is not None:
            cl.append('generator-replaced')
        if loaded is not None:
            cl.append('loader-route')
        if dropped:
            cl.append('class-handles-only')
        if case['unknown']:
            cl.append('unknown-type')
        if case['ref']:
            cl.append('has-referential')
        if clash_key is not None and n_referring:
            cl.append('referring-creations')
        res.case(case, nt, sample=case if nt else None, classes=cl)


def same(a, b):
    if isinstance(a, bool) != isinstance(b, bool):
        return False
    if isinstance(a, float) or isinstance(b, float):
        return a == b
    return type(a) is type(b) and a == b


# -- stand-alone generators ------------------------------------------------------------

GEN_OPS = ['peek', 'next', '__next__', 'builtin-next', 'iter']


def gen_case_strategy():
    return st.fixed_dictionaries({
        'kind': st.sampled_from(['int', 'uuid', 'custom']),
        'seq': st.sets(st.integers(1, 2 ** 64), min_size=1, max_size=5).map(sorted),
        'ops': st.lists(st.sampled_from(GEN_OPS), min_size=1, max_size=25),
        'generator': st.just(True)})


def run_gen_case(case, res=None):
    def fail(bucket, detail):
        raise Violation(bucket, case, detail)

    kind = case['kind']
    g = xtuml.IntegerGenerator() if kind == 'int' else (xtuml.UUIDGenerator() if kind == 'uuid' else ReplayGen(case['seq']))
    out = []
    pending = None      # last peeked value
    npeek = 0
    for op in case['ops']:
        if op == 'peek':
            v = g.peek()
            if pending is not None and v != pending:
                fail('peek-advances', 'two peeks without next gave %r then %r' % (pending, v))
            pending = v
            npeek += 1
            continue
        if op == 'next':
            v = g.next()
        elif op == '__next__':
            v = g.__next__()
        elif op == 'builtin-next':
            v = next(g)
        else:
            it = iter(g)
            if it is not g:
                fail('iter-not-self', 'iter(generator) is not the generator')
            v = next(it)
        if pending is not None and v != pending:
            fail('peek-not-next', 'peek gave %r, following next gave %r' % (pending, v))
        pending = None
        out.append(v)
    if kind == 'int' and out != list(range(1, len(out) + 1)):
        fail('integer-generator-sequence', 'yielded %r' % out)
    if kind == 'custom':
        want = (list(case['seq']) + [case['seq'][-1] + i for i in range(1, 60)])[:len(out)]
        if out != want:
            fail('custom-generator-sequence', 'yielded %r want %r' % (out, want))
    if kind == 'uuid':
        if len(set(out)) != len(out) or any((not isinstance(v, int)) or v <= 0 or v >= 2 ** 128 for v in out):
            fail('uuid-generator-values', 'yielded %r' % out)
    if res is not None:
        nt = npeek >= 1 and len(out) >= 2
        res.case(case, nt, sample=case if nt else None, classes=('standalone-generator',))


def selftest():
    assert same(0, 0) and not same(False, 0) and same(0.0, 0.0) and not same('', 0)
    g = ReplayGen([5, 9])
    assert [g.next(), g.next(), g.next()] == [5, 9, 10]


def run(ctx):
    res = Res()

    def body(case):
        try:
            if case.get('generator'):
                run_gen_case(case, res)
            else:
                run_case(case, res)
        except Violation:
            raise
        except Exception as e:
            raise Violation('harness-exception:' + exc_bucket(e), case, repr(e))

    hyp_run(ctx, res, cases(), body, ctx.pick(1500, 8000), label='creations')
    hyp_run(ctx, res, gen_case_strategy(), body, ctx.pick(1000, 5000), label='generators')
    # exhaustive: every op sequence up to length 5 on each generator kind
    import itertools

    def ex():
        for kind in ('int', 'uuid', 'custom'):
            for n in range(1, 6):
                for ops in itertools.product(GEN_OPS, repeat=n):
                    yield {'kind': kind, 'seq': [3, 4, 9], 'ops': list(ops), 'generator': True}
    if ctx.shard == 0:
        loop_run(ctx, res, ex(), body)
        res.exhaustive_parts.append('stand-alone generators: all peek/next/__next__/next()/iter sequences of length 1..5 '
                                    'on the three generator kinds: %d' % (3 * sum(5 ** n for n in range(1, 6))))
    return res


def replay(case):
    if case.get('generator'):
        run_gen_case(case)
    else:
        run_case(case)
