"""Shared fixture for C05 / C06 / C08-prebuild: a synthesised BridgePoint model whose action homes
(functions, bridges, class/instance operations, derived attribute) hold generated, name-resolved OAL."""
import xtuml
from bridgepoint import ooaofooa, prebuild, sourcegen
from xtuml import navigate_one as one, navigate_many as many

from . import bpmodel, c15_callables, oalsyn
from .oalgen import Printer, render


def layout_text(body, newline_every=True, case=None, style=0):
    """print a body with one statement per line (nested blocks indented by the token stream only); case: optional list
    of spelling styles for the keywords (oalsyn.caser)"""
    p = Printer(choose=lambda key, options: options[0], case=oalsyn.caser(case) if case else None)
    p.block(body['block'])
    gaps = []
    for i, (text, kind) in enumerate(p.toks):
        prev = p.toks[i - 1][0] if i else None
        gaps.append('\n' if prev == ';' and style == 0 else (' ' if i else ''))
    # style 1: the whole body on one line, except that 'end if / for / while' is broken inside the token
    text, pos = render(p.toks, gaps, ['\n', ' \n\t', '\n'] if style == 1 else None)
    return p, text, pos


POISON_BODY = ('i1 = "text"; s1 = 1; b1 = 2.5; r1 = true; w1 = "w"; acc = "a"; x = 1;\n'
               'select any a_1 from instances of B; select many as_1 from instances of D;\n'
               'if (true)\n i2 = "t"; s2 = 2; e1 = 3;\n while (true)\n  i3 = false; b2 = "u";\n  zz = nobody_declared_this;\n end while;\nend if;')
_poison = {}


def poison_prebuild():
    if 'home' not in _poison:
        fx = Fixture([0] * 20, states=[], texts={'function:f0': POISON_BODY})
        _poison['fx'] = fx
        _poison['home'] = fx.m.select_any('S_SYNC', xtuml.where_eq(Name='f0'))
        _poison['failed'] = 0
    try:
        prebuild.prebuild_action(_poison['home'])
    except Exception:
        _poison['failed'] += 1
        return
    raise AssertionError('the poison action was translated without complaint')


class Fixture(object):
    def __init__(self, tape, order=(), texts=None, case=None, states=None, style=0):
        """texts: optional {kind:name -> body text} overriding the generated bodies (idempotence round)"""
        self.callables, self.features, _t = c15_callables.gen_graph(tape, for_prebuild=True, states=states)
        self.printed = {}
        for c in self.callables:
            p, text, pos = layout_text(c.body, case=case, style=style)
            self.printed[c.key] = (p, text, pos)
        D = c15_callables.diagram_with(self.callables, None, second_group=True)
        D['irdt'] = True
        key = lambda c: c.key
        src = dict((key(c), (texts or {}).get(key(c), self.printed[key(c)][1])) for c in self.callables)
        self.source = src
        # diagram_with stored c.text (single-line); replace by the chosen text
        for f in D['functions']:
            f['body'] = src['function:' + f['name']]
        for e in D['ees']:
            for b in e['bridges']:
                b['body'] = src['bridge:' + b['name'] if e['kl'] != 'ZEE' else 'bridge:ZEE.' + b['name']]
        for c in D['classes']:
            for o in c['ops']:
                k = ('instop:' if o['instance'] else 'classop:') + o['name']
                if k == 'classop:cop' and c['kl'] == 'B':
                    k = 'classop:B.cop'
                o['body'] = src[k]
            for a in c['attrs']:
                if a.get('derived') is not None:
                    a['derived'] = src['derived:' + a['name']]
        for c in self.callables:
            if c.kind in ('state', 'txn'):
                sm = c15_callables.SM_DEFS[c.sm[0]]
                for ci_, cl in enumerate(D['classes']):
                    for m_ in cl.get('sms', []):
                        if cl['kl'] == sm['cls'] and m_['kind'] == sm['kind']:
                            if c.kind == 'state':
                                m_['states'][c.sm[1]]['body'] = src[key(c)]
                            else:
                                m_['txns'][c.sm[1]][3] = src[key(c)]
        self.D = D
        rows, self.ix = bpmodel.to_rows(D)
        from .c14_component import shuffle
        self.text = bpmodel.render(shuffle(rows, list(order)))
        l = ooaofooa.ModelLoader()
        l.input(self.text)
        self.m = l.build_metamodel()

    def home(self, c):
        m = self.m
        if c.kind == 'function':
            return m.select_any('S_SYNC', xtuml.where_eq(Name=c.name))
        if c.kind == 'bridge':
            return m.select_any('S_BRG', lambda sel: sel.Name == c.name and one(sel).S_EE[19]().Key_Lett == c.cls)
        if c.kind in ('classop', 'instop'):
            return m.select_any('O_TFR', lambda sel: sel.Name == c.name and one(sel).O_OBJ[115]().Key_Lett == c.cls)
        if c.kind in ('state', 'txn'):
            sm = c15_callables.SM_DEFS[c.sm[0]]
            ci = [k for k, cl in enumerate(self.D['classes']) if cl['kl'] == sm['cls']][0]
            if c.kind == 'state':
                sid = self.ix['state'][(ci, sm['kind'], sm['states'][c.sm[1]])]
                h = m.select_any('SM_MOAH', xtuml.where_eq(SMstt_ID=sid))
            else:
                tid = self.ix['txn'][(ci, sm['kind'], c.sm[1])]
                h = m.select_any('SM_TAH', xtuml.where_eq(Trans_ID=tid))
            return one(h).SM_AH[513].SM_ACT[514]()
        o_attr = m.select_any('O_ATTR', xtuml.where_eq(Name=c.name))
        return one(o_attr).O_BATTR[106].O_DBATTR[107]()

    def prebuild(self):
        # the translation must not depend on what was parsed earlier in the process: a rejected multi-line text first
        from bridgepoint import oal
        try:
            oal.parse('x = 1;\ny = 2;\nif (true)\n z = (3;\n')
        except oal.ParseException:
            pass
        # ... nor on a translation that was given up half way: an action of ANOTHER model that declares the usual variable
        # names with unusual types inside nested blocks and then refers to a variable nobody declared
        poison_prebuild()
        # (the abandoned translation parsed its text successfully: the rejected text once more, so that it is the LAST thing
        # the parser saw before the translation under test - seed C06-b had slipped through in between)
        try:
            oal.parse('x = 1;\ny = 2;\n\nif (true)\n z = (3;\n')
        except oal.ParseException:
            pass
        prebuild.prebuild_model(self.m)

    def generated_text(self, c):
        return sourcegen.gen_text_action(self.home(c))
