"""Populations: 'dirty' row sets (null / dangling / duplicate keys) for loading, and
'resolvable' populations (rows + explicit links) for API construction."""
from hypothesis import strategies as st

import xtuml
from . import gen_schema
from .gen_schema import Schema, insert_statement, schema_statements
from .shadow import Shadow, key_join


@st.composite
def dirty_rows(draw, schema_js, max_rows=4, min_rows=0, null_ident=True):
    """-> list of [class name, {attr: value}] in statement order (classes interleaved)."""
    sc = Schema(schema_js)
    rows = []
    for c in sc.classes:
        refs = sc.referentials(c['name'])
        for _ in range(draw(st.integers(min_rows, max_rows))):
            row = {}
            for n, t in c['attrs']:
                is_key = n in refs or any(n in u['attrs'] for u in sc.uniques if u['cls'] == c['name']) \
                    or any(n in a['tgt_keys'] for a in sc.assocs if a['tgt'] == c['name'])
                if is_key:
                    row[n] = draw(gen_schema.small_key_value(t, with_null=null_ident or n in refs))
                else:
                    row[n] = draw(gen_schema.small_key_value(t))
            rows.append([c['name'], row])
    return draw(st.permutations(rows)) if rows else rows


def rows_by_class(rows):
    out = {}
    for cn, row in rows:
        out.setdefault(cn.upper(), []).append(row)
    return out


def shadow_from_rows(schema_js, rows):
    """Shadow of the model a loader must build from these rows: instances per class in
    statement order, links by key-join, plain attributes stored."""
    sc = Schema(schema_js)
    sh = Shadow(schema_js)
    recs = {}
    for cn, row in rows:
        plain = dict((n, row.get(n)) for n, _t in sc.plain_attrs(cn))
        r = sh.new(cn, plain)
        recs.setdefault(cn.upper(), []).append(r)
    rbc = rows_by_class(rows)
    for i, pairs in enumerate(key_join(sc, rbc)):
        a = sc.assocs[i]
        for si, ti in pairs:
            sh.links[i].append((recs[a['src'].upper()][si], recs[a['tgt'].upper()][ti]))
    return sh, recs


def load_rows(schema_js, rows, named=False, id_generator=None):
    sc = Schema(schema_js)
    text = '\n'.join(schema_statements(schema_js) + [insert_statement(sc, cn, row, named=named) for cn, row in rows])
    l = xtuml.ModelLoader()
    l.input(text)
    return l.build_metamodel(id_generator if id_generator is not None else xtuml.IntegerGenerator()), text


@st.composite
def resolvable(draw, schema_js, max_rows=4, hard=True, cr=False, max_links=12):
    """Population whose referential values resolve: unique non-null identifiers, links chosen
    explicitly and respecting multiplicity.  -> {'rows': [[cls, {plain attr: value}]...], 'links': [[assoc, src_row, tgt_row]...]}
    Row indices are per class."""
    sc = Schema(schema_js)
    rows = []
    count = {}
    used_keys = {}
    for c in sc.classes:
        plain = sc.plain_attrs(c['name'])
        ident = set()
        for u in sc.uniques:
            if u['cls'] == c['name']:
                ident |= set(u['attrs'])
        for a in sc.assocs:
            if a['tgt'] == c['name']:
                ident |= set(a['tgt_keys'])
        n = draw(st.integers(0, max_rows))
        count[c['name']] = n
        for k in range(n):
            row = {}
            for an, t in plain:
                if an in ident:
                    # unique and non-null per attribute, so every key tuple is unique and resolvable
                    v = draw(nonnull_value(t, hard).filter(
                        lambda v, key=(c['name'], an): repr(v) not in used_keys.setdefault(key, set())))
                    used_keys[(c['name'], an)].add(repr(v))
                    row[an] = v
                else:
                    row[an] = draw(gen_schema.value_of(t, hard, cr))
            rows.append([c['name'], row])
    links = []
    src_used = {}
    tgt_used = {}
    for i, a in enumerate(sc.assocs):
        ns, nt = count[a['src']], count[a['tgt']]
        if not ns or not nt:
            continue
        for _ in range(draw(st.integers(0, min(max_links, ns)))):
            s = draw(st.integers(0, ns - 1))
            t = draw(st.integers(0, nt - 1))
            if (i, s) in src_used:
                continue                        # tgt end is single-valued
            if not a['src_many'] and (i, t) in tgt_used:
                continue
            if a['shape'] == 'reflexive' and s == t:
                continue
            src_used[(i, s)] = t
            tgt_used[(i, t)] = s
            links.append([i, s, t])
    rows = list(draw(st.permutations(rows))) if rows else rows
    # links refer to per-class indices in the final statement order
    links = sanitize_links(schema_js, rows, links)
    links, why = close_links(schema_js, rows, links)
    out = {'rows': rows, 'links': links}
    if why:
        out['unresolvable'] = why
    return out


def close_links(schema_js, rows, links):
    """Types without a null (INTEGER, REAL, BOOLEAN) write an unlinked referential as 0 / 0.0 / false, which
    may equal an existing key: such pairs are linked by any loader.  Add them to the intended links until
    nothing changes; report when that breaks multiplicity (the population then cannot be expressed by keys)."""
    sc = Schema(schema_js)
    links = [list(l) for l in links]
    for _ in range(20):
        sh, recs = shadow_from_links(schema_js, rows, links)
        ser = {}
        for c in sc.classes:
            out = []
            for r in recs.get(c['name'].upper(), []):
                row = {}
                for n, t in c['attrs']:
                    v = sh.attr(r, n)
                    v = gen_schema.default_of(t) if v is None else v
                    if t.upper() == 'REAL':
                        v = float('%f' % v)      # the format carries six decimals: keys closer than that coincide
                    row[n] = v
                out.append(row)
            ser[c['name'].upper()] = out
        want = key_join(sc, ser)
        new = [[i, s, t] for i, pairs in enumerate(want) for (s, t) in pairs if [i, s, t] not in links]
        if not new:
            have = set((i, s, t) for i, s, t in links)
            joined = set((i, s, t) for i, pairs in enumerate(want) for (s, t) in pairs)
            if have - joined:
                return links, 'intended link not carried by key values'
            return links, None
        links.extend(new)
        for i, a in enumerate(sc.assocs):
            srcs = [s for (j, s, t) in links if j == i]
            tgts = [t for (j, s, t) in links if j == i]
            if len(set(srcs)) != len(srcs):
                return links, 'null-less key type makes an unlinked row match'
            if not a['src_many'] and len(set(tgts)) != len(tgts):
                return links, 'null-less key type makes an unlinked row match'
    return links, 'link closure did not settle'


def shadow_from_links(schema_js, rows, links):
    sh = Shadow(schema_js)
    recs = {}
    for cn, row in rows:
        recs.setdefault(cn.upper(), []).append(sh.new(cn, dict(row)))
    for i, s, t in links:
        a = sh.schema.assocs[i]
        sh.links[i].append((recs[a['src'].upper()][s], recs[a['tgt'].upper()][t]))
    return sh, recs


def sanitize_links(schema_js, rows, links):
    """Keep only links the file format can carry: the referred key (which may itself be
    derived through other links) is non-null and unique within the referred class."""
    sc = Schema(schema_js)
    links = [list(l) for l in links]
    while True:
        sh, recs = shadow_from_links(schema_js, rows, links)
        bad = None
        for li, (i, s, t) in enumerate(links):
            a = sc.assocs[i]
            trec = recs[a['tgt'].upper()][t]
            key = [sh.attr(trec, tk) for tk in a['tgt_keys']]
            if any(gen_schema.is_null(sc.attr_type(a['tgt'], tk), v) for tk, v in zip(a['tgt_keys'], key)):
                bad = li
                break
            same = [r for r in recs[a['tgt'].upper()]
                    if [sh.attr(r, tk) for tk in a['tgt_keys']] == key]
            if len(same) != 1:
                bad = li
                break
        if bad is None:
            return links
        del links[bad]


def nonnull_value(ty, hard=True):
    ty = ty.upper()
    if ty == 'UNIQUE_ID':
        return gen_schema.ids(nonzero=True)
    if ty == 'STRING':
        return gen_schema.strings(hard).filter(lambda s: s != '')
    # INTEGER, REAL and BOOLEAN have no null: 0 / 0.0 / false are ordinary key values.  An unlinked referential
    # attribute is written as that value too and then matches such a key - close_links() accounts for it
    return gen_schema.value_of(ty, hard)
