"""C10 - names are case-insensitive and every spelling addresses one stored value."""
import itertools

from hypothesis import strategies as st

import xtuml
from .core import Violation, hyp_run, loop_run, Res, exc_bucket

PROPERTY = 'C10'
RULE = ("class 'Ab' with a plain attribute 'Xy', an identifying attribute 'iD' and a referential attribute 'Rf' "
        "(R1 to class 'Tq' with key 'K'), two instances (one is a bystander that must never change). Operations: "
        'write / delete an attribute under one of ALL 2^k case patterns of its name, write to the referential '
        'attribute (must raise MetaException), relate/unrelate, create a further instance through a class-name '
        'spelling with keyword spellings. After the last call of every sequence: every spelling of every attribute '
        'reads the model value on both instances, serialize_instance shows it, where_eq / dict filter / order_by '
        'under every spelling select exactly the matching instances, every spelling of the class name finds the '
        'same metaclass and pool; a further class is DEFINED during the sequence: before that every spelling of its name is unknown to find_metaclass / '
        'find_class / select / new, afterwards every spelling (also one that was turned down before) reaches the one class and its pool. Exhaustive over all sequences up to the stated length (every prefix is a '
        'sequence), Hypothesis for sequences up to 30 over longer names and more values. non-trivial = one '
        'attribute written under >= 2 different spellings and read under a third; distinct = by sequence.')
ASSUMPTIONS = [
    'deleting an attribute that is currently unset (or a referential attribute) may raise or do nothing; it must '
    'not change any other attribute',
    'reading a deleted plain attribute may raise AttributeError or give None, but identically under every spelling',
    'a referential value passed to the constructor by keyword (any spelling) relates the new instance exactly when it names the existing referred instance',
]

UNSET = '<unset>'


def spellings(name):
    letters = [i for i, ch in enumerate(name) if ch.isalpha()]
    out = []
    for bits in itertools.product([0, 1], repeat=len(letters)):
        s = list(name.lower())
        for b, i in zip(bits, letters):
            if b:
                s[i] = s[i].upper()
        out.append(''.join(s))
    return out


LATE = 'Zk'          # a class that is defined in the course of a sequence; before that every spelling is unknown


class World(object):
    def __init__(self, names=None, via_load=False, types=None):
        self.late = None
        self.late_insts = []
        names = names or {'cls': 'Ab', 'plain': 'Xy', 'ident': 'iD', 'ref': 'Rf', 'tcls': 'Tq', 'tkey': 'K'}
        self.names = names
        self.types = types = types or {'plain': 'INTEGER', 'ident': 'INTEGER'}
        if via_load:
            names = dict(names, plain_t=types['plain'], ident_t=types['ident'])
            # the same two instances, loaded from text with a dangling and a null referential value
            text = ('CREATE TABLE %(cls)s (%(plain)s %(plain_t)s, %(ident)s %(ident_t)s, %(ref)s INTEGER);\n'
                    'CREATE TABLE %(tcls)s (%(tkey)s INTEGER);\n'
                    'CREATE UNIQUE INDEX I1 ON %(cls)s (%(ident)s);\n'
                    'CREATE ROP REF_ID R1 FROM MC %(cls)s (%(ref)s) TO 1C %(tcls)s (%(tkey)s);\n'
                    'INSERT INTO %(tcls)s VALUES (77);\n'
                    'INSERT INTO %(cls)s VALUES (0, 0, 5);\n'
                    'INSERT INTO %(cls)s VALUES (41, 42, 6);\n') % names
            l = xtuml.ModelLoader()
            l.input(text)
            m = l.build_metamodel(xtuml.IntegerGenerator())
            self.m = m
            self.t = m.select_any(names['tcls'])
            self.insts = list(m.select_many(names['cls']))
            self.model = [{names['plain']: 0, names['ident']: 0, 'ref': None},
                          {names['plain']: 41, names['ident']: 42, 'ref': None}]
            return
        m = xtuml.MetaModel(xtuml.IntegerGenerator())
        m.define_class(names['cls'], [(names['plain'], types['plain']), (names['ident'], types['ident']), (names['ref'], 'INTEGER')])
        m.define_class(names['tcls'], [(names['tkey'], 'INTEGER')])
        m.define_unique_identifier(names['cls'], 'I1', names['ident'])
        ass = m.define_association(1, names['cls'], [names['ref']], True, True, '',
                                   names['tcls'], [names['tkey']], False, True, '')
        ass.formalize()
        self.m = m
        self.t = m.new(names['tcls'], **{names['tkey']: 77})
        self.insts = [m.new(names['cls']), m.new(names['cls'])]
        # model: per instance declared name -> value
        self.model = [{names['plain']: 0, names['ident']: 0, 'ref': None} for _ in self.insts]
        # (an attribute of type UNIQUE_ID gets a generated default: the model values are written explicitly)
        setattr(self.insts[0], names['plain'], 0)
        setattr(self.insts[0], names['ident'], 0)
        # bystander gets distinct values once, through declared names
        setattr(self.insts[1], names['plain'], 41)
        setattr(self.insts[1], names['ident'], 42)
        self.model[1][names['plain']] = 41
        self.model[1][names['ident']] = 42


def apply(w, op, case):
    def fail(bucket, detail):
        raise Violation(bucket, case, '%s at op %r' % (detail, op))

    n = w.names
    inst = w.insts[0]
    kind = op[0]
    if kind == 'write':
        _, which, sp, v = op
        try:
            setattr(inst, sp, v)
        except Exception as e:
            fail('write-exception:' + exc_bucket(e), repr(e))
        w.model[0][n[which]] = v
    elif kind == 'del':
        _, which, sp = op
        was_set = which != 'ref' and w.model[0][n[which]] != UNSET
        try:
            delattr(inst, sp)
        except (AttributeError, KeyError) as e:
            if was_set:
                fail('delete-of-set-attribute-raised', repr(e))
        except Exception as e:
            fail('delete-exception:' + exc_bucket(e), repr(e))
        if which != 'ref':
            w.model[0][n[which]] = UNSET
    elif kind == 'writeref':
        _, sp, v = op
        try:
            setattr(inst, sp, v)
        except xtuml.MetaException:
            pass
        except Exception as e:
            fail('referential-write-wrong-exception:' + exc_bucket(e), repr(e))
        else:
            fail('referential-write-accepted', 'assignment to referential attribute under spelling %r succeeded' % sp)
    elif kind == 'relate':
        if w.model[0]['ref'] is None:
            xtuml.relate(inst, w.t, 1)
            w.model[0]['ref'] = 77
    elif kind == 'unrelate':
        if w.model[0]['ref'] is not None:
            xtuml.unrelate(inst, w.t, 1)
            w.model[0]['ref'] = None
    elif kind == 'new':
        _, clssp, kw = op
        kwargs = dict((sp, v) for (which, sp, v) in kw)
        try:
            new = w.m.new(clssp, **kwargs)
        except Exception as e:
            fail('new-exception:' + exc_bucket(e), repr(e))
        mod = {n['plain']: 0, n['ident']: 0, 'ref': None}
        for which in ('plain', 'ident'):
            if w.types[which] == 'UNIQUE_ID':
                # no keyword: a generated identifier, whatever it is it is one stored value
                mod[n[which]] = new.__dict__.get(n[which])
        for which, sp, v in kw:
            if which == 'ref':
                # a referential value given by keyword relates the new instance when it names the one Tq instance (key 77);
                # any other value refers to nothing and reads as unset
                mod['ref'] = 77 if v == 77 else None
            else:
                mod[n[which]] = v
        w.insts.append(new)
        w.model.append(mod)
    elif kind == 'late-define':
        if w.late is None:
            try:
                w.late = w.m.define_class(LATE, [('V', 'INTEGER')])
            except Exception as e:
                fail('define-class-exception:' + exc_bucket(e), repr(e))
    elif kind == 'late-new':
        try:
            x = w.m.new(op[1], **{op[2]: 7})
        except xtuml.UnknownClassException as e:
            if w.late is not None:
                fail('class-spelling-unknown-after-definition', 'new(%r) raised %r although %s is defined' % (op[1], e, LATE))
        except Exception as e:
            fail('new-exception:' + exc_bucket(e), repr(e))
        else:
            if w.late is None:
                fail('undefined-class-instantiated', 'new(%r) returned %r' % (op[1], x))
            if xtuml.get_metaclass(x) is not w.late or x.V != 7:
                fail('class-spelling-other-metaclass', 'new(%r, %s=7) gave %r' % (op[1], op[2], x))
            w.late_insts.append(x)
    else:
        raise ValueError(op)


def check_late(w, fail):
    """the class defined during the sequence: unknown under every spelling before, one class under every spelling after"""
    for sp in spellings(LATE):
        outcome = []
        for what, fn in (('find_metaclass', lambda: w.m.find_metaclass(sp)), ('find_class', lambda: w.m.find_class(sp)),
                         ('select_many', lambda: list(w.m.select_many(sp))), ('select_any', lambda: w.m.select_any(sp))):
            try:
                outcome.append((what, 'v', fn()))
            except xtuml.UnknownClassException as e:
                outcome.append((what, 'unknown', e))
            except Exception as e:
                fail('class-spelling-exception:' + exc_bucket(e), '%s(%r): %r' % (what, sp, e))
        for what, k, v in outcome:
            if w.late is None:
                if k != 'unknown':
                    fail('undefined-class-found', '%s(%r) gave %r before %s was defined' % (what, sp, v, LATE))
            elif k == 'unknown':
                fail('class-spelling-unknown-after-definition', '%s(%r) raised %r although %s is defined' % (what, sp, v, LATE))
        if w.late is not None:
            got = dict((what, v) for what, k, v in outcome)
            if got['find_metaclass'] is not w.late or got['find_class'] is not w.late.clazz:
                fail('class-spelling-other-metaclass', 'find_metaclass(%r)' % sp)
            if len(got['select_many']) != len(w.late_insts) or any(a is not b for a, b in zip(got['select_many'], w.late_insts)):
                fail('class-spelling-other-pool', 'select_many(%r) gave %d instances' % (sp, len(got['select_many'])))
            if got['select_any'] is not (w.late_insts[0] if w.late_insts else None):
                fail('class-spelling-other-pool', 'select_any(%r)' % sp)


def check(w, case, value_pool):
    def fail(bucket, detail):
        raise Violation(bucket, case, detail)

    n = w.names
    check_late(w, fail)
    # class name spellings
    mc = w.m.find_metaclass(n['cls'])
    for sp in spellings(n['cls']):
        try:
            if w.m.find_metaclass(sp) is not mc or w.m.find_class(sp) is not mc.clazz:
                fail('class-spelling-other-metaclass', 'find_metaclass(%r)' % sp)
            got = list(w.m.select_many(sp))
            one = w.m.select_any(sp)
        except Violation:
            raise
        except Exception as e:
            fail('class-spelling-exception:' + exc_bucket(e), '%r: %r' % (sp, e))
        if len(got) != len(w.insts) or any(a is not b for a, b in zip(got, w.insts)):
            fail('class-spelling-other-pool', 'select_many(%r) gave %d instances' % (sp, len(got)))
        if one is not w.insts[0]:
            fail('class-spelling-other-pool', 'select_any(%r)' % sp)
    # attribute reads under every spelling
    for k, inst in enumerate(w.insts):
        for which in ('plain', 'ident'):
            want = w.model[k][n[which]]
            outcomes = []
            for sp in spellings(n[which]):
                try:
                    v = getattr(inst, sp)
                    outcomes.append(('v', v))
                except AttributeError:
                    outcomes.append(('AttributeError', None))
                except Exception as e:
                    fail('read-exception:' + exc_bucket(e), repr(e))
            if want == UNSET:
                if len(set(outcomes)) != 1 or outcomes[0] not in (('AttributeError', None), ('v', None)):
                    fail('deleted-attribute-still-readable', 'instance %d %s: %r' % (k, n[which], outcomes))
            else:
                bad = [(sp, o) for sp, o in zip(spellings(n[which]), outcomes) if o != ('v', want)]
                if bad:
                    who = 'bystander-' if k == 1 else ''
                    fail(who + 'spelling-reads-other-value', 'instance %d %s should read %r: %r' % (k, n[which], want, bad[:4]))
        for sp in spellings(n['ref']):
            try:
                v = getattr(inst, sp)
            except Exception as e:
                fail('referential-read-exception:' + exc_bucket(e), repr(e))
            if v != w.model[k]['ref']:
                fail('referential-spelling-reads-other-value', 'instance %d %r reads %r want %r' % (k, sp, v, w.model[k]['ref']))
    # serialization shows the model values
    for k, inst in enumerate(w.insts):
        if UNSET in w.model[k].values():
            continue
        try:
            text = xtuml.serialize_instance(inst)
        except Exception as e:
            fail('serialize-exception:' + exc_bucket(e), repr(e))
        vals = [ln.strip().split(' ')[0].rstrip(',') for ln in text.splitlines()[1:-1]]
        ref = w.model[k]['ref']
        import uuid
        show = lambda which: ('"%s"' % uuid.UUID(int=w.model[k][n[which]])) if w.types[which] == 'UNIQUE_ID' else str(w.model[k][n[which]])
        want = [show('plain'), show('ident'), str(ref if ref is not None else 0)]
        if vals != want:
            fail('serialized-other-value', 'instance %d serialized %r, model %r' % (k, vals, want))
    # queries under every spelling
    for which in ('plain', 'ident'):
        for sp in spellings(n[which]):
            for v in value_pool:
                want = [k for k in range(len(w.insts)) if w.model[k][n[which]] == v]
                if any(w.model[k][n[which]] == UNSET for k in range(len(w.insts))):
                    continue
                for form in ('where_eq', 'dict'):
                    try:
                        q = xtuml.where_eq(**{sp: v}) if form == 'where_eq' else {sp: v}
                        got = w.m.select_many(n['cls'], q)
                        got = [_index(w, x) for x in got]
                    except Exception as e:
                        fail('query-exception:' + exc_bucket(e), repr(e))
                    if got != want:
                        fail('query-spelling-other-result', '%s(%s=%r) gave %r want %r' % (form, sp, v, got, want))
        # one filter naming the attribute twice, under two spellings: a conjunction like any other
        sps = spellings(n[which])
        if len(sps) >= 2 and not any(w.model[k][n[which]] == UNSET for k in range(len(w.insts))):
            for sp1, sp2 in ((sps[0], sps[-1]), (sps[-1], sps[0]), (sps[0], sps[1])):
                if sp1 == sp2:
                    continue
                for v1 in value_pool:
                    for v2 in value_pool:
                        want = [k for k in range(len(w.insts)) if w.model[k][n[which]] == v1 and w.model[k][n[which]] == v2]
                        for form in ('where_eq', 'dict', 'two'):
                            try:
                                if form == 'two':
                                    got = w.m.select_many(n['cls'], xtuml.where_eq(**{sp1: v1}), xtuml.where_eq(**{sp2: v2}))
                                else:
                                    q = xtuml.where_eq(**{sp1: v1, sp2: v2}) if form == 'where_eq' else {sp1: v1, sp2: v2}
                                    got = w.m.select_many(n['cls'], q)
                                got = [_index(w, x) for x in got]
                            except Exception as e:
                                fail('query-exception:' + exc_bucket(e), repr(e))
                            if got != want:
                                fail('query-two-spellings-other-result', '%s(%s=%r, %s=%r) gave %r want %r' % (form, sp1, v1, sp2, v2, got, want))
    for which in ('plain', 'ident'):
        for sp in spellings(n[which]):
            if not any(w.model[k][n[which]] == UNSET for k in range(len(w.insts))):
                got = [_index(w, x) for x in w.m.select_many(n['cls'], xtuml.order_by(sp))]
                want = sorted(range(len(w.insts)), key=lambda k: w.model[k][n[which]])
                if got != want:
                    fail('order-by-spelling-other-result', 'order_by(%r) gave %r want %r' % (sp, got, want))
    for sp in spellings(n['ref']):
        for v in (77, None):
            want = [k for k in range(len(w.insts)) if w.model[k]['ref'] == v]
            got = [_index(w, x) for x in w.m.select_many(n['cls'], xtuml.where_eq(**{sp: v}))]
            if got != want:
                fail('query-spelling-other-result', 'where_eq(%s=%r) gave %r want %r' % (sp, v, got, want))


def _index(w, x):
    for i, y in enumerate(w.insts):
        if x is y:
            return i
    return -1


VARIANTS = [None, {'cls': 'Ab', 'plain': 'xY', 'ident': 'Id', 'ref': 'rF', 'tcls': 'Tq', 'tkey': 'k'},
            {'cls': 'aB', 'plain': 'XY', 'ident': 'ID', 'ref': 'RF', 'tcls': 'tQ', 'tkey': 'K'}]
LONG_VARIANTS = [None, {'cls': 'Ab_c', 'plain': 'nAME', 'ident': 'key_X', 'ref': 't_ID', 'tcls': 'Tq', 'tkey': 'k'},
                 {'cls': 'AB_C', 'plain': 'NAME', 'ident': 'KEY_x', 'ref': 'T_Id', 'tcls': 'TQ', 'tkey': 'K'}]


TYPE_VARIANTS = [{'plain': 'INTEGER', 'ident': 'INTEGER'}, {'plain': 'INTEGER', 'ident': 'UNIQUE_ID'},
                 {'plain': 'UNIQUE_ID', 'ident': 'INTEGER'}, {'plain': 'INTEGER', 'ident': 'INTEGER'}]


def run_sequence(case, names=None, value_pool=(1, 2, 0)):
    # the DECLARED spelling varies between cases too (several metamodels with the same class kind live in one
    # process); which variant is a pure function of the case
    from .core import sha
    v = int(sha(case['ops'])[:2], 16) % 3
    if names is None:
        names = VARIANTS[v]
    elif v:
        names = LONG_VARIANTS[v]
    types = TYPE_VARIANTS[int(sha(case['ops'])[4:6], 16) % len(TYPE_VARIANTS)]
    w = World(names, via_load=int(sha(case['ops'])[2:4], 16) % 3 == 0, types=types)
    for op in case['ops']:
        if op[0] == 'write' and types[op[1]] == 'UNIQUE_ID' and op[3] < 0:
            op = op[:3] + [op[3] + 10]       # identifiers are not negative
        elif op[0] == 'new':
            op = op[:2] + [[[wh, sp, v + 10 if v < 0 and types.get(wh) == 'UNIQUE_ID' else v] for wh, sp, v in op[2]]]
        apply(w, op, case)
        # every spelling is read, serialized and queried after EVERY step: what a read or a query leaves behind (a memo,
        # a lookup table) must not survive the next write
        check(w, case, value_pool)
    if not case['ops']:
        check(w, case, value_pool)


def nontrivial(ops):
    seen = {}
    for op in ops:
        if op[0] == 'write':
            seen.setdefault(op[1], set()).add(op[2])
    # reads happen under all spellings at the end (a third spelling always exists for 2-letter names)
    return any(len(v) >= 2 for v in seen.values())


def alphabet():
    ops = []
    names = {'plain': 'Xy', 'ident': 'iD', 'ref': 'Rf'}
    for which in ('plain', 'ident'):
        for sp in spellings(names[which]):
            for v in (1, 2):
                ops.append(['write', which, sp, v])
            ops.append(['del', which, sp])
    for sp in spellings(names['ref']):
        ops.append(['writeref', sp, 5])
    ops.append(['del', 'ref', 'rF'])
    ops.append(['relate'])
    ops.append(['unrelate'])
    ops.append(['new', 'aB', [['plain', 'xY', 2], ['ident', 'ID', 1]]])
    ops.append(['new', 'AB', [['plain', 'XY', 1]]])
    ops.append(['new', 'Ab', [['ref', 'RF', 77], ['plain', 'xy', 2]]])      # referential value by keyword, not as declared
    ops.append(['late-define'])
    ops.append(['late-new', 'zK', 'v'])
    ops.append(['late-new', 'ZK', 'V'])
    return ops


LONG = {'cls': 'Ab_c', 'plain': 'Name', 'ident': 'Key_x', 'ref': 'T_id', 'tcls': 'Tq', 'tkey': 'K'}


@st.composite
def long_cases(draw):
    ops = []
    for _ in range(draw(st.integers(3, 30))):
        k = draw(st.integers(0, 9))
        if k <= 4:
            which = draw(st.sampled_from(['plain', 'ident']))
            ops.append(['write', which, draw(st.sampled_from(spellings(LONG[which]))), draw(st.integers(-3, 3))])
        elif k == 5:
            which = draw(st.sampled_from(['plain', 'ident', 'ref']))
            ops.append(['del', which, draw(st.sampled_from(spellings(LONG[which])))])
        elif k == 6:
            ops.append(['writeref', draw(st.sampled_from(spellings(LONG['ref']))), draw(st.integers(0, 99))])
        elif k == 7:
            ops.append(draw(st.sampled_from([['relate'], ['unrelate'], ['late-define'], ['late-new', 'zk', 'V'], ['late-new', 'Zk', 'v']])))
        else:
            kw = []
            for which in ('plain', 'ident'):
                if draw(st.booleans()):
                    kw.append([which, draw(st.sampled_from(spellings(LONG[which]))), draw(st.integers(-3, 3))])
            if draw(st.integers(0, 3)) == 0:
                kw.append(['ref', draw(st.sampled_from(spellings(LONG['ref']))), draw(st.sampled_from([77, 77, 5]))])
            ops.append(['new', draw(st.sampled_from(spellings(LONG['cls']))), kw])
    return {'ops': ops, 'long': True}


def selftest():
    assert sorted(spellings('iD')) == sorted(['id', 'iD', 'Id', 'ID'])
    assert len(spellings('Key_x')) == 16


def run(ctx):
    res = Res()
    alpha = alphabet()
    maxlen = ctx.pick(2, 3)

    def body(case):
        try:
            if case.get('long'):
                run_sequence(case, LONG, value_pool=(-3, 0, 1, 3))
            else:
                run_sequence(case)
        except Violation:
            raise
        except Exception as e:
            raise Violation('harness-exception:' + exc_bucket(e), case, repr(e))
        nt = nontrivial(case['ops'])
        res.case(case, nt, sample=case if nt else None,
                 classes=('long' if case.get('long') else 'len%d' % len(case['ops']),))

    def ex():
        idx = 0
        for nlen in range(0, maxlen + 1):
            for seq in itertools.product(alpha, repeat=nlen):
                idx += 1
                if idx % ctx.nshards != ctx.shard:
                    continue
                yield {'ops': [list(o) for o in seq]}

    loop_run(ctx, res, ex(), body)
    res.exhaustive_parts.append('all sequences of length 0..%d over %d concrete calls (every case pattern of the 2-letter '
                                'names): %d' % (maxlen, len(alpha), sum(len(alpha) ** k for k in range(maxlen + 1))))
    hyp_run(ctx, res, long_cases(), body, ctx.pick(400, 3000), label='long')
    return res


def replay(case):
    if case.get('long'):
        run_sequence(case, LONG, value_pool=(-3, 0, 1, 3))
    else:
        run_sequence(case)
