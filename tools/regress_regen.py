#!/usr/bin/env python3
"""tools/regress_regen.py <commit7> [...]  -- for the named fixed entries of known_findings.json whose regression case went stale
(tools/regress_validate.py says STALE): run the check on a scratch copy with the fix undone, take a failing case of the same
bucket that passes on /repo, and store it as the new regression case."""
import json, os, subprocess, sys, tempfile, shutil, glob
os.chdir('/verif')
kf = json.load(open('known_findings.json'))
targets = sys.argv[1:]   # commits
for e in kf:
    if e['status'] != 'fixed' or e['commit'].split()[0][:7] not in targets:
        continue
    work = tempfile.mkdtemp(prefix='regen-')
    subprocess.check_call(['rsync', '-a', '--exclude', '.git', '--exclude', '__pycache__', '/repo/', work + '/repo/'])
    for commit in e['commit'].split():
        diff = subprocess.check_output(['git', '-C', '/repo', 'show', commit, '--', 'xtuml', 'bridgepoint'])
        subprocess.run(['patch', '-R', '-p1', '-s', '-d', work + '/repo'], input=diff, check=True)
    for seed in ('1', '2', '3'):
        env = dict(os.environ, VERIF_REPO=work + '/repo', VERIF_OUT=work + '/out', VERIF_SEED=seed)
        r = subprocess.run(['./check', e['property']], env=env, capture_output=True, text=True, timeout=1800)
        found = None
        for f in sorted(glob.glob(work + '/out/replays/*.json')):
            d = json.load(open(f))
            print(' candidate', d['bucket'])
            if d['bucket'] == e['bucket'] or found is None:
                # must pass on the current tree
                json.dump({'case': d['case']}, open(work + '/c.json', 'w'))
                r1 = subprocess.run(['./check', e['property'], '--replay', work + '/c.json'], env=dict(os.environ, VERIF_OUT=work + '/o2'), capture_output=True, text=True)
                if r1.returncode == 0:
                    if d['bucket'] == e['bucket']:
                        found = d; break
                    found = found or d
        if found:
            print(e['property'], e['commit'], 'new regression case, bucket', found['bucket'], '(was %s)' % e['bucket'])
            e['regression'] = found['case']
            e['bucket'] = found['bucket']
            break
    else:
        print(e['property'], e['commit'], 'NOT regenerated')
    shutil.rmtree(work, ignore_errors=True)
json.dump(kf, open('known_findings.json', 'w'), indent=1)
