"""Snapshot + rebuild of /repo's working tree (DESIGN.md 1.2).

pyxtuml's PLY parsers run with optimize=1 and load the git-ignored
__*_parsetab.py / __*_lextab.py files without a signature check, and the
editable-install finder resolves `bridgepoint.__oal_parsetab` back to /repo.
So every check imports a fresh copy of the two packages, without the table
files and with the editable finder removed, and lets PLY regenerate the tables
from the grammar as written in the working tree.
"""
import atexit
import importlib
import logging
import os
import shutil
import subprocess
import sys
import tempfile

REPO = os.environ.get('VERIF_REPO', '/repo')
VERIF = os.path.dirname(os.path.dirname(os.path.abspath(__file__)))
BUILD_ROOT = os.path.join(VERIF, '.build')

_state = {}


class HarnessError(Exception):
    """A problem of the harness itself: exit 2, never a VIOLATION."""


def _cleanup(path, pid):
    if os.getpid() == pid:
        shutil.rmtree(path, ignore_errors=True)


def _sweep_stale():
    """Remove scratch directories left behind by killed runs (pid gone)."""
    if not os.path.isdir(BUILD_ROOT):
        return
    for name in os.listdir(BUILD_ROOT):
        pid = name.split('-')[0]
        if pid.isdigit() and not os.path.exists('/proc/%s' % pid):
            shutil.rmtree(os.path.join(BUILD_ROOT, name), ignore_errors=True)


def setup():
    """Copy, import and regenerate; returns the scratch directory."""
    if _state:
        return _state['dir']
    os.makedirs(BUILD_ROOT, exist_ok=True)
    _sweep_stale()
    scratch = tempfile.mkdtemp(prefix='%d-' % os.getpid(), dir=BUILD_ROOT)
    atexit.register(_cleanup, scratch, os.getpid())
    src = os.path.join(scratch, 'src')
    os.makedirs(src)
    os.makedirs(os.path.join(scratch, 'tmp'))
    for pkg in ('xtuml', 'bridgepoint'):
        def ignore(d, names):
            return [n for n in names
                    if n == '__pycache__' or n.endswith('.pyc')
                    or (n.startswith('__') and n.endswith('tab.py'))]
        shutil.copytree(os.path.join(REPO, pkg), os.path.join(src, pkg),
                        ignore=ignore)
    # remove the editable finder and every path entry that leads to /repo
    sys.meta_path[:] = [f for f in sys.meta_path
                        if 'editable' not in (getattr(f, '__module__', '') or '')
                        and 'editable' not in type(f).__module__
                        and 'editable' not in getattr(f, '__name__', '')]
    repo_real = os.path.realpath(REPO)
    sys.path[:] = [p for p in sys.path
                   if os.path.realpath(p or '.') != repo_real]
    sys.path.insert(0, src)
    for name in list(sys.modules):
        if name.split('.')[0] in ('xtuml', 'bridgepoint'):
            del sys.modules[name]
    importlib.invalidate_caches()
    logging.disable(logging.CRITICAL)  # pyxtuml logs warnings per violation
    try:
        import xtuml
        import bridgepoint
        import bridgepoint.oal
        import bridgepoint.ooaofooa
        import bridgepoint.interpret
        import bridgepoint.prebuild
        import bridgepoint.sourcegen
        # regenerate all four tables from the working tree's grammar
        loader = xtuml.ModelLoader()
        loader.input('CREATE TABLE X (Id INTEGER); INSERT INTO X VALUES (1);')
        loader.build_metamodel()
        bridgepoint.oal.parse('x = 1 + 2;')
        # second round: PLY now imports the tables it has just written
        xtuml.ModelLoader().input('CREATE TABLE X (Id INTEGER);')
        bridgepoint.oal.parse('x = 1 + 2;')
    except Exception as e:  # a tree that does not import is a harness error
        raise HarnessError('cannot import/rebuild pyxtuml from %s: %r' % (REPO, e))
    mods = ['xtuml', 'bridgepoint', 'xtuml.__xtuml_parsetab',
            'xtuml.__xtuml_lextab', 'bridgepoint.__oal_parsetab',
            'bridgepoint.__oal_lextab']
    for name in mods:
        m = sys.modules.get(name)
        if m is None and name.endswith('tab'):
            continue            # tables generated in memory and not re-imported (e.g. a cached parser): fine
        f = getattr(m, '__file__', None)
        if not f or not os.path.realpath(f).startswith(os.path.realpath(src)):
            raise HarnessError('%s not loaded from scratch build (%r)' % (name, f))
    _state['dir'] = scratch
    _state['src'] = src
    return scratch


def tmpdir():
    return os.path.join(setup(), 'tmp')


def srcdir():
    setup()
    return _state['src']


def python_env():
    """Environment for sub-processes that must see the scratch build."""
    env = dict(os.environ)
    env['PYTHONPATH'] = srcdir()
    env['PYTHONHASHSEED'] = '0'
    env['PYTHONDONTWRITEBYTECODE'] = '1'
    return env


def repo_head():
    try:
        return subprocess.check_output(['git', '-C', REPO, 'rev-parse', 'HEAD'],
                                       stderr=subprocess.DEVNULL).decode().strip()
    except Exception:
        return 'unknown'
