"""History runner: applies JSON operations to a real MetaModel and to the shadow,
and compares the whole observable state after every step (DESIGN.md 2.3)."""
import xtuml

from .core import Violation, exc_bucket
from .gen_schema import Schema, build_api, default_of
from .shadow import Shadow, Rejected

EXC = {
    'RelateException': xtuml.RelateException,
    'UnrelateException': xtuml.UnrelateException,
    'UnknownLinkException': xtuml.UnknownLinkException,
    'DeleteException': xtuml.DeleteException,
}


class Runner(object):
    def __init__(self, schema_js, case=None, via_sql=False, checking=True):
        self.checking = checking
        self.schema_js = schema_js
        self.schema = Schema(schema_js)
        self.case = case
        if via_sql:
            from .gen_schema import schema_statements
            l = xtuml.ModelLoader()
            l.input('\n'.join(schema_statements(schema_js)))
            self.m = l.build_metamodel(xtuml.IntegerGenerator())
        else:
            self.m = build_api(schema_js)
        self.sh = Shadow(schema_js)
        self.real = []      # real instances by creation index
        self.step = -1
        self.trace = []

    # -- helpers ---------------------------------------------------------------
    def fail(self, bucket, detail):
        raise Violation(bucket, self.case, 'step %d %r: %s' % (self.step, self.trace[-1:] or '', detail))

    def idx_of(self, inst):
        for i, r in enumerate(self.real):
            if r is inst:
                return i
        return None

    def relarg(self, rel, as_str):
        return 'R%d' % rel if as_str else rel

    # -- operations ----------------------------------------------------------------
    def new(self, cname, vals=None, how='kw'):
        """Create through the API; plain attribute values given by keyword (or positionally
        when `how`=='pos' and the class has no referential attribute before them)."""
        vals = dict(vals or {})
        plain = self.schema.plain_attrs(cname)
        # 'self' / 'kind' cannot be passed as Python keywords to new(self, kind, ...)
        late = dict((k, v) for k, v in vals.items() if k in ('self', 'kind'))
        inst = self.m.new(cname, **dict((k, v) for k, v in vals.items() if k not in late))
        for k, v in late.items():
            setattr(inst, k, v)
        rec_vals = {}
        for n, t in plain:
            if n in vals:
                rec_vals[n] = vals[n]
            elif t.upper() == 'UNIQUE_ID':
                rec_vals[n] = getattr(inst, n)     # generator value; C19 checks the generator itself
            else:
                rec_vals[n] = default_of(t)
        rec = self.sh.new(cname, rec_vals)
        self.real.append(inst)
        assert rec.idx == len(self.real) - 1
        return rec.idx

    def apply(self, op):
        """op: JSON list.  Returns 'ok' | 'rejected' | 'noop'."""
        self.step += 1
        self.trace.append(op)
        kind = op[0]
        if kind == 'new':
            self.new(op[1], op[2] if len(op) > 2 else None)
            self.compare()
            return 'ok'
        if kind in ('relate', 'unrelate'):
            _, i, j, rel, phrase, relstr = op
            fn = xtuml.relate if kind == 'relate' else xtuml.unrelate
            if i is None or j is None:
                x = None if i is None else self.real[i]
                y = None if j is None else self.real[j]
                got = fn(x, y, self.relarg(rel, relstr), phrase) if phrase is not None \
                    else fn(x, y, self.relarg(rel, relstr))
                if got is not False:
                    self.fail('%s-none-not-false' % kind, 'returned %r' % (got,))
                self.compare()
                return 'noop'
            sx, sy = self.sh.recs[i], self.sh.recs[j]
            before = self.sh.state()
            try:
                if kind == 'relate':
                    outcome = self.sh.relate(sx, sy, rel, phrase or '')
                else:
                    self.sh.unrelate(sx, sy, rel, phrase or '')
                    outcome = 'unlinked'
                expect = None
            except Rejected as r:
                expect = r.kind
                outcome = 'rejected'
            return self._call(fn, kind, (self.real[i], self.real[j], self.relarg(rel, relstr)) +
                              ((phrase,) if phrase is not None else ()), expect, outcome)
        if kind == 'delete':
            _, i, viafn = op
            rec = self.sh.recs[i]
            try:
                self.sh.delete(rec)
                expect = None
            except Rejected as r:
                expect = r.kind
            if viafn:
                return self._call(xtuml.delete, 'delete', (self.real[i],), expect, 'deleted')
            mc = xtuml.get_metaclass(self.real[i])
            return self._call(mc.delete, 'delete', (self.real[i],), expect, 'deleted')
        raise ValueError(op)

    def _call(self, fn, name, args, expect, outcome):
        try:
            got = fn(*args)
            raised = None
        except xtuml.MetaException as e:
            raised = e
        except Exception as e:
            self.fail('%s-exception:%s' % (name, exc_bucket(e)), repr(e))
        if expect is None:
            if raised is not None:
                self.fail('%s-rejected-valid-call:%s' % (name, type(raised).__name__),
                          'valid call raised %r' % (raised,))
            if name in ('relate', 'unrelate') and got is not True:
                self.fail('%s-return-value' % name, 'returned %r' % (got,))
            self.compare()
            return 'noop' if outcome == 'noop' else 'ok'
        if raised is None:
            self.fail('%s-accepted-invalid-call:%s' % (name, expect),
                      'call that must raise %s returned %r' % (expect, got))
        if type(raised) is not EXC[expect]:
            self.fail('%s-wrong-exception:%s' % (name, expect),
                      'expected %s, got %r' % (expect, raised))
        self.compare(after_reject=name)
        return 'rejected'

    # -- observation ---------------------------------------------------------------
    def observe(self):
        """Observable state of the real model through public reads only."""
        st = {'instances': {}, 'links': []}
        live = {}
        for c in self.schema.classes:
            lst = []
            for inst in self.m.select_many(c['name']):
                k = self.idx_of(inst)
                if k is None:
                    self.fail('unknown-instance-selected', 'select_many(%s) returned an unknown instance' % c['name'])
                lst.append(k)
                live[k] = inst
            st['instances'][c['name']] = lst
        # class -> class across an association class (the link class is skipped): a read like any other - asked first,
        # so that whatever it leaves behind shows in the one-hop observations below
        for i, a in enumerate(self.schema.assocs):
            if a.get('shape') != 'assoc' or a['tgt_phrase'] or a['src_phrase']:
                continue
            for j, b in enumerate(self.schema.assocs):
                if j == i or b['rel'] != a['rel'] or b['src'] != a['src'] or b.get('shape') != 'assoc' or \
                        b['tgt'].upper() == a['tgt'].upper() or b['tgt_phrase'] or b['src_phrase']:
                    continue
                for k in st['instances'][self.schema.cls(a['tgt'])['name']]:
                    want = [p.idx for p in self.sh.nav1(self.sh.recs[k], b['tgt'], a['rel'], '')]
                    got = [self.idx_of(r) for r in xtuml.navigate_many(live[k]).nav(b['tgt'], a['rel'])()]
                    if got != want:
                        self.fail('navigation-across-association-class', 'R%d from #%d to %s: got %r want %r' % (a['rel'], k, b['tgt'], got, want))
        self.observe_subtypes(st, live)
        for a in self.schema.assocs:
            fwd, bwd = {}, {}
            for k in st['instances'][self.schema.cls(a['src'])['name']]:
                res = xtuml.navigate_many(live[k]).nav(a['tgt'], a['rel'], a['src_phrase'])()
                ks = [self.idx_of(r) for r in res]
                if ks:
                    fwd[k] = ks
            for k in st['instances'][self.schema.cls(a['tgt'])['name']]:
                res = xtuml.navigate_many(live[k]).nav(a['src'], 'R%d' % a['rel'], a['tgt_phrase'])()
                ks = [self.idx_of(r) for r in res]
                if ks:
                    bwd[k] = ks
            st['links'].append({'fwd': fwd, 'bwd': bwd})
        return st, live

    def observe_subtypes(self, st, live):
        """navigate_subtype of every supertype instance: the one related subtype instance, or nothing"""
        groups = {}
        for i, a in enumerate(self.schema.assocs):
            if a.get('shape') == 'subsuper':
                groups.setdefault((a['rel'], a['tgt']), []).append(i)
        for (rel, sup), idxs in sorted(groups.items()):
            for k in st['instances'][self.schema.cls(sup)['name']]:
                subs = []
                for i in idxs:
                    subs += [p.idx for p in self.sh.partners(i, self.sh.recs[k], False)]
                if len(subs) > 1:
                    continue            # which one is not stated
                try:
                    g = xtuml.navigate_subtype(live[k], rel)
                except Exception as e:
                    self.fail('navigate-subtype-exception:' + exc_bucket(e), repr(e))
                got = None if g is None else self.idx_of(g)
                if got != (subs[0] if subs else None):
                    self.fail('navigate-subtype-wrong', 'R%d from #%d: got %r want %r' % (rel, k, got, subs[0] if subs else None))

    def compare(self, after_reject=None):
        if not self.checking:
            return
        want = self.sh.state()
        got, live = self.observe()
        tag = ('after-rejected-%s:' % after_reject) if after_reject else ''
        if got['instances'] != want['instances']:
            self.fail(tag + 'instances-differ', 'got %r want %r' % (got['instances'], want['instances']))
        for i, a in enumerate(self.schema.assocs):
            g, w = got['links'][i], want['links'][i]
            # symmetry first: it is the sharper diagnosis
            for k, ks in g['fwd'].items():
                for t in ks:
                    if t is None or t not in live:
                        self.fail(tag + 'dead-instance-reachable', 'R%d from #%d reaches %r' % (a['rel'], k, t))
                    if k not in g['bwd'].get(t, []):
                        self.fail(tag + 'asymmetric-link', 'R%d: #%d reaches #%d but not back; fwd %r bwd %r'
                                  % (a['rel'], k, t, g['fwd'], g['bwd']))
            for k, ks in g['bwd'].items():
                for s in ks:
                    if s is None or s not in live:
                        self.fail(tag + 'dead-instance-reachable', 'R%d from #%d reaches %r' % (a['rel'], k, s))
                    if k not in g['fwd'].get(s, []):
                        self.fail(tag + 'asymmetric-link', 'R%d: #%d reaches #%d but not back; fwd %r bwd %r'
                                  % (a['rel'], k, s, g['fwd'], g['bwd']))
            if g != w:
                self.fail(tag + 'links-differ', 'R%d got %r want %r' % (a['rel'], g, w))
        for k, inst in live.items():
            rec = self.sh.recs[k]
            for n, _t in self.schema.attrs(rec.cls):
                try:
                    v = getattr(inst, n)
                except Exception as e:
                    self.fail(tag + 'attr-read-exception:' + exc_bucket(e), '%r.%s: %r' % (rec, n, e))
                ok = self.sh.attr_values(rec, n)
                if not any(_eq(v, o) for o in ok):
                    refs = self.schema.referentials(rec.cls)
                    what = 'referential' if n in refs else 'plain'
                    self.fail(tag + '%s-attribute-differs' % what, '%r.%s reads %r, expected %r' % (rec, n, v, ok))


def _eq(a, b):
    if a is None or b is None:
        return a is b
    return type(a) is type(b) and a == b or (isinstance(a, (int, float)) and isinstance(b, (int, float))
                                              and not isinstance(a, bool) and not isinstance(b, bool) and a == b)
