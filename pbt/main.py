"""./check entry: dispatch, seed/tier handling, findings, evidence, exit codes."""
import argparse
import importlib
import json
import os
import sys
import time
import traceback

from . import build, core

VERIF = build.VERIF
OUT = os.environ.get('VERIF_OUT') or VERIF   # mutant runs write elsewhere
MODULES = {
    'C01': 'pbt.c01_roundtrip', 'C02': 'pbt.c02_links', 'C03': 'pbt.c03_loadlinks',
    'C04': 'pbt.c04_interpret', 'C05': 'pbt.c05_prebuild_text', 'C06': 'pbt.c06_prebuild_wf',
    'C07': 'pbt.c07_precedence', 'C08': 'pbt.c08_case', 'C09': 'pbt.c09_query',
    'C10': 'pbt.c10_names', 'C11': 'pbt.c11_consistency', 'C12': 'pbt.c12_loadfail',
    'C13': 'pbt.c13_positions', 'C14': 'pbt.c14_component', 'C15': 'pbt.c15_callables',
    'C16': 'pbt.c16_sortreflexive', 'C17': 'pbt.c17_orderedset', 'C18': 'pbt.c18_independent',
    'C19': 'pbt.c19_defaults', 'C20': 'pbt.c20_xsd',
}


def load_findings(prop):
    path = os.path.join(VERIF, 'known_findings.json')
    if not os.path.exists(path):
        return []
    with open(path) as f:
        return [e for e in json.load(f) if e.get('property') == prop]


def write_replay(prop, v, seed, tier):
    d = os.path.join(OUT, 'replays')
    os.makedirs(d, exist_ok=True)
    body = {'property': prop, 'bucket': v['bucket'], 'case': v['case'],
            'detail': v['detail'], 'seed': seed, 'tier': tier}
    name = '%s-%s.json' % (prop, core.sha([v['bucket'], v['case']])[:12])
    path = os.path.join(d, name)
    with open(path, 'w') as f:
        json.dump(body, f, indent=1, sort_keys=True, ensure_ascii=True)
    return path


def run_replay_case(mod, case):
    """Returns a violation dict or None."""
    try:
        mod.replay(case)
    except core.Violation as v:
        return {'bucket': v.bucket, 'case': core.jsonable(v.case),
                'detail': core.clip(v.detail, 4000)}
    return None


def write_evidence(prop, mod, ctx, res, wall, nviol, extra=None):
    d = os.path.join(OUT, 'evidence')
    os.makedirs(d, exist_ok=True)
    cov = {
        'evaluations': res.evaluations,
        'distinct_nontrivial': len(res.nontrivial),
        'rule': getattr(mod, 'RULE', ''),
        'samples': res.samples,
        'classes': dict(sorted(res.classes.items())),
        'discarded': dict(sorted(res.discarded.items())),
        'excluded': dict(sorted(res.excluded.items())),
        'exhaustive_parts': res.exhaustive_parts,
        'exhaustive': bool(res.exhaustive),
        'notes': res.notes,
        'repo_head': build.repo_head(),
    }
    if res.nontrivial_overflow:
        cov['nontrivial_beyond_hash_cap'] = res.nontrivial_overflow
    if extra:
        cov.update(extra)
    ev = {
        'property_id': prop, 'tier': ctx.tier, 'seed': ctx.seed,
        'level': 'exploration', 'coverage': cov,
        'assumptions': list(getattr(mod, 'ASSUMPTIONS', [])),
        'wall_s': round(wall, 2), 'violations': nviol,
    }
    path = os.path.join(d, '%s.json' % prop)
    tmp = path + '.tmp'
    with open(tmp, 'w') as f:
        json.dump(ev, f, indent=1, sort_keys=True, ensure_ascii=True)
    os.replace(tmp, path)


def main(argv=None):
    ap = argparse.ArgumentParser()
    ap.add_argument('prop')
    ap.add_argument('--tier', default=os.environ.get('VERIF_TIER') or 'quick',
                    choices=['quick', 'thorough'])
    ap.add_argument('--replay')
    ap.add_argument('--shards', type=int, default=None)
    args = ap.parse_args(argv)
    prop = args.prop.upper()
    try:
        seed = int(os.environ.get('VERIF_SEED') or '1')
    except ValueError:
        seed = 1
    t0 = time.time()
    try:
        if prop not in MODULES:
            raise build.HarnessError('unknown property %s' % prop)
        build.setup()
        mod = importlib.import_module(MODULES[prop])
        if hasattr(mod, 'selftest'):
            try:
                mod.selftest()
            except AssertionError:
                raise build.HarnessError('oracle self-test failed:\n' + traceback.format_exc())

        if args.replay:
            with open(args.replay) as f:
                body = json.load(f)
            v = run_replay_case(mod, body['case'])
            if v:
                print('VIOLATION property=%s replay=%s' % (prop, os.path.abspath(args.replay)))
                print('  bucket: %s\n  detail: %s' % (v['bucket'], v['detail']))
                return 1
            print('replay passed: %s' % args.replay)
            return 0

        ctx = core.Ctx(prop, args.tier, seed)
        violations = []
        known_lines = []
        for e in load_findings(prop):
            wit = e.get('witness') if e.get('status') == 'known' else e.get('regression')
            v = run_replay_case(mod, wit) if wit is not None else None
            if e.get('status') == 'known':
                if v is not None:
                    known_lines.append('KNOWN-FINDING: property=%s %s' % (prop, e.get('what', e.get('bucket'))))
                    for b in [e.get('bucket')] + list(e.get('also_buckets', [])):
                        ctx.excluded.add(b)
            elif e.get('status') == 'fixed':
                if v is not None:
                    v['bucket'] = 'regression:' + v['bucket']
                    violations.append(v)

        nshards = args.shards or (1 if ctx.quick else min(16, os.cpu_count() or 1))
        if getattr(mod, 'SHARDED', True) is False:
            nshards = 1
        res = core.run_sharded(mod, ctx, nshards)
        for v in res.violations:
            if v['bucket'] in ctx.excluded:
                continue
            violations.append(v)

        # generator drift: interesting classes must actually occur
        for cls, frac in ([] if violations else getattr(mod, 'MIN_FRACTIONS', {}).items()):
            # fractions are taken over the generated cases; executions of a coverage-guided campaign are counted apart
            fuzzed = sum(v for k, v in res.classes.items() if k.startswith('fuzz-') and ':' not in k)
            got = res.classes.get(cls, 0) / float(max(res.evaluations - fuzzed, 1))
            if got < frac:
                raise build.HarnessError('generator drift: class %r is %.4f of cases, '
                                         'minimum %.4f' % (cls, got, frac))
        if not violations and (res.evaluations < 1 or len(res.nontrivial) < 2):
            raise build.HarnessError('vacuous run: %d evaluations, %d non-trivial'
                                     % (res.evaluations, len(res.nontrivial)))

        wall = time.time() - t0
        write_evidence(prop, mod, ctx, res, wall, len(violations),
                       {'shards': nshards,
                        'known_findings_reported': len(known_lines)})
        for line in known_lines:
            print(line)
        print('%s tier=%s seed=%d shards=%d evaluations=%d distinct_nontrivial=%d wall=%.1fs'
              % (prop, ctx.tier, seed, nshards, res.evaluations, len(res.nontrivial), wall))
        if violations:
            for v in violations:
                path = write_replay(prop, v, seed, ctx.tier)
                print('VIOLATION property=%s replay=%s' % (prop, path))
                print('  bucket: %s\n  detail: %s' % (v['bucket'], core.clip(v['detail'], 1500)))
            return 1
        return 0
    except build.HarnessError as e:
        sys.stderr.write('HARNESS ERROR (%s): %s\n' % (prop, e))
        return 2
    except Exception:
        sys.stderr.write('HARNESS ERROR (%s):\n%s\n' % (prop, traceback.format_exc()))
        return 2


if __name__ == '__main__':
    code = main()
    sys.stdout.flush()
    sys.stderr.flush()
    sys.exit(code)
