"""OAL abstract syntax (harness side), printer with exact token positions, layout, tree comparison.

An AST node is a dict {'t': <pyxtuml node class name>, <field>: value ...}; children are dicts or lists of
dicts.  The printer turns a tree into a token list and records, per node, the index of its first and
last token; a layout joins the tokens with drawn whitespace / comments, which gives every node its
exact (line, column) span and source substring without consulting the parser.
"""
import bridgepoint.oal as oal

# fields per node class: (name, kind) with kind in s(calar) k(eyword-valued scalar) n(ode) l(ist of nodes)
FIELDS = {
    'BodyNode': [('block', 'n')],
    'BlockNode': [('statement_list', 'n')],
    'StatementListNode': [('children', 'l')],
    'BreakNode': [], 'ContinueNode': [], 'ControlNode': [],
    'ReturnNode': [('expression', 'n')],
    'AssignmentNode': [('variable_access', 'n'), ('expression', 'n')],
    'InvocationStatementNode': [('invocation', 'n')],
    'GenerateClassEventNode': [('event_specification', 'n'), ('key_letter', 's')],
    'GenerateCreatorEventNode': [('event_specification', 'n'), ('key_letter', 's')],
    'GenerateInstanceEventNode': [('event_specification', 'n'), ('variable_access', 'n')],
    'CreateClassEventNode': [('variable_name', 's'), ('event_specification', 'n'), ('key_letter', 's')],
    'CreateCreatorEventNode': [('variable_name', 's'), ('event_specification', 'n'), ('key_letter', 's')],
    'CreateInstanceEventNode': [('variable_name', 's'), ('event_specification', 'n'), ('to_variable_access', 'n')],
    'GeneratePreexistingNode': [('variable_access', 'n')],
    'CreateObjectNode': [('variable_name', 's'), ('key_letter', 's')],
    'CreateObjectNoVariableNode': [('key_letter', 's')],
    'DeleteNode': [('variable_name', 's')],
    'EventSpecNode': [('identifier', 's'), ('meaning', 's'), ('event_data', 'n')],
    'EventDataListNode': [('children', 'l')],
    'EventDataItemNode': [('name', 's'), ('expression', 'n')],
    'ForEachNode': [('instance_variable_name', 's'), ('set_variable_name', 's'), ('block', 'n')],
    'WhileNode': [('expression', 'n'), ('block', 'n')],
    'IfNode': [('expression', 'n'), ('block', 'n'), ('elif_list', 'n'), ('else_clause', 'n')],
    'ElIfListNode': [('children', 'l')],
    'ElIfNode': [('expression', 'n'), ('block', 'n')],
    'ElseNode': [('block', 'n')],
    'RelateNode': [('from_variable_name', 's'), ('to_variable_name', 's'), ('rel_id', 's'), ('phrase', 's')],
    'RelateUsingNode': [('from_variable_name', 's'), ('to_variable_name', 's'), ('rel_id', 's'), ('phrase', 's'),
                        ('using_variable_name', 's')],
    'UnrelateNode': [('from_variable_name', 's'), ('to_variable_name', 's'), ('rel_id', 's'), ('phrase', 's')],
    'UnrelateUsingNode': [('from_variable_name', 's'), ('to_variable_name', 's'), ('rel_id', 's'), ('phrase', 's'),
                          ('using_variable_name', 's')],
    'SelectRelatedNode': [('cardinality', 'k'), ('variable_name', 's'), ('handle', 'n'), ('navigation_chain', 'n')],
    'SelectRelatedWhereNode': [('cardinality', 'k'), ('variable_name', 's'), ('handle', 'n'), ('navigation_chain', 'n'),
                               ('where_clause', 'n')],
    'NavigationListNode': [('children', 'l')],
    'NavigationStepNode': [('key_letter', 's'), ('rel_id', 's'), ('phrase', 's')],
    'SelectFromNode': [('cardinality', 'k'), ('variable_name', 's'), ('key_letter', 's')],
    'SelectFromWhereNode': [('cardinality', 'k'), ('variable_name', 's'), ('key_letter', 's'), ('where_clause', 'n')],
    'InstanceInvocationNode': [('handle', 'n'), ('action_name', 's'), ('parameter_list', 'n')],
    'FunctionInvocationNode': [('action_name', 's'), ('parameter_list', 'n')],
    'ImplicitInvocationNode': [('namespace', 's'), ('action_name', 's'), ('parameter_list', 'n')],
    'ClassInvocationNode': [('namespace', 's'), ('action_name', 's'), ('parameter_list', 'n')],
    'BridgeInvocationNode': [('namespace', 's'), ('action_name', 's'), ('parameter_list', 'n')],
    'PortInvocationNode': [('namespace', 's'), ('action_name', 's'), ('parameter_list', 'n')],
    'GeneratePortEventNode': [('port_name', 's'), ('action_name', 's'), ('parameter_list', 'n'), ('expression', 'n')],
    'ParameterListNode': [('children', 'l')],
    'ParameterNode': [('name', 's'), ('expression', 'n')],
    'UnaryOperationNode': [('operator', 'k'), ('operand', 'n')],
    'BinaryOperationNode': [('left', 'n'), ('operator', 'k'), ('right', 'n')],
    'VariableAccessNode': [('variable_name', 's')],
    'SelfAccessNode': [],
    'SelectedAccessNode': [],
    'ParamAccessNode': [('variable_name', 's')],
    'FieldAccessNode': [('handle', 'n'), ('name', 's')],
    'IndexAccessNode': [('handle', 'n'), ('expression', 'n')],
    'IntegerNode': [('value', 's')], 'RealNode': [('value', 's')], 'StringNode': [('value', 's')],
    'BooleanNode': [('value', 'k')],
    'EnumOrNamedConstantNode': [('namespace', 's'), ('name', 's')],
}

EXPRESSION_NODES = set(['UnaryOperationNode', 'BinaryOperationNode', 'VariableAccessNode', 'SelfAccessNode',
                        'SelectedAccessNode', 'ParamAccessNode', 'FieldAccessNode', 'IndexAccessNode', 'IntegerNode',
                        'RealNode', 'StringNode', 'BooleanNode', 'EnumOrNamedConstantNode', 'InstanceInvocationNode',
                        'FunctionInvocationNode', 'ImplicitInvocationNode', 'ClassInvocationNode', 'BridgeInvocationNode',
                        'PortInvocationNode'])
STATEMENT_NODES = set(['BreakNode', 'ContinueNode', 'ControlNode', 'ReturnNode', 'AssignmentNode',
                       'InvocationStatementNode', 'GenerateClassEventNode', 'GenerateCreatorEventNode',
                       'GenerateInstanceEventNode', 'CreateClassEventNode', 'CreateCreatorEventNode',
                       'CreateInstanceEventNode', 'GeneratePreexistingNode', 'CreateObjectNode',
                       'CreateObjectNoVariableNode', 'DeleteNode', 'ForEachNode', 'WhileNode', 'IfNode', 'RelateNode',
                       'RelateUsingNode', 'UnrelateNode', 'UnrelateUsingNode', 'SelectRelatedNode',
                       'SelectRelatedWhereNode', 'SelectFromNode', 'SelectFromWhereNode', 'GeneratePortEventNode'])

PREC = {'or': 1, 'and': 2, '<': 3, '<=': 3, '==': 3, '!=': 3, '>': 3, '>=': 3, '+': 4, '-': 4, '|': 4,
        '*': 5, '/': 5, '&': 5, '^': 5, '%': 6}
BINOPS = ['or', 'and', '<', '<=', '==', '!=', '>', '>=', '+', '-', '|', '*', '/', '&', '^', '%']
UNOPS = ['not', 'empty', 'not_empty', 'cardinality', '+', '-']
UNARY_LEVEL = 7


def N(t, **kw):
    d = {'t': t}
    d.update(kw)
    return d


def level(e):
    if e['t'] == 'BinaryOperationNode':
        return PREC[e['operator'].lower()]
    if e['t'] == 'UnaryOperationNode':
        return UNARY_LEVEL
    return 9


# ---------------------------------------------------------------------------------------------------------
# printer

class Printer(object):
    """opts(node_path, key) -> drawn choice; used for optional words, keyword case and redundant parentheses."""

    def __init__(self, choose=None, case=None):
        self.toks = []          # (text, kind) kind: w(ord) n(umber) p(unct) s(tring) e(nd-token)
        self.spans = {}         # id(node) -> [first, last]
        self.parens = {}        # id(node) -> number of redundant parentheses drawn
        self.choose = choose or (lambda key, options: options[0])
        self.case = case or (lambda kw: kw)
        self.nodes = []         # nodes in print order

    def kw(self, word):
        self.toks.append((self.case(word), 'w'))

    def word(self, text):
        self.toks.append((text, 'w'))

    def num(self, text):
        self.toks.append((text, 'n'))

    def punct(self, text, glue_next=False):
        self.toks.append((text, 'g' if glue_next else 'p'))

    def string(self, text):
        self.toks.append((text, 's'))

    def end(self, what):
        # 'end if' is ONE lexical token: inner whitespace is chosen by the layout, no comment inside
        self.toks.append((self.case('end') + '\x00' + self.case(what), 'e'))

    def mark(self, node, first):
        self.spans[id(node)] = [first, len(self.toks) - 1]
        self.nodes.append(node)

    # -- expressions -------------------------------------------------------------------------------
    def expr(self, e, need_parens=False):
        first = len(self.toks)
        extra = self.choose(('parens', id(e)), [0, 0, 0, 1, 2]) if self.choose else 0
        n = (1 if need_parens else 0) + extra
        for _ in range(n):
            self.punct('(')
        inner_first = len(self.toks)
        self._expr(e)
        for _ in range(n):
            self.punct(')')
        if n:
            # the parser re-positions the node on the grouped production: span includes the parentheses
            self.spans[id(e)] = [first, len(self.toks) - 1]
        self.parens[id(e)] = n
        return first

    def _expr(self, e):
        t = e['t']
        first = len(self.toks)
        if t == 'BinaryOperationNode':
            L = level(e)
            nonassoc = (L == 3)
            l, r = e['left'], e['right']
            self.expr(l, level(l) < L or (nonassoc and level(l) == L))
            op = e['operator']
            if op.lower() in ('and', 'or'):
                self.kw(op)
            else:
                self.punct(op)
            self.expr(r, level(r) <= L)
        elif t == 'UnaryOperationNode':
            op = e['operator']
            if op in ('+', '-'):
                self.punct(op)
            else:
                self.kw(op)
            o = e['operand']
            self.expr(o, level(o) < UNARY_LEVEL)
        elif t in ('IntegerNode', 'RealNode'):
            self.num(e['value'])
        elif t == 'StringNode':
            self.string(e['value'])
        elif t == 'BooleanNode':
            self.kw(e['value'])
        elif t == 'EnumOrNamedConstantNode':
            self.punct(e['namespace'], glue_next=True)
            self.punct('::')
            self.word(e['name'])
        elif t == 'VariableAccessNode':
            self.word(e['variable_name'])
        elif t == 'SelfAccessNode':
            self.kw('self')
        elif t == 'SelectedAccessNode':
            self.kw('selected')
        elif t == 'ParamAccessNode':
            self.kw(e.get('_kw', 'param'))
            self.punct('.')
            self.word(e['variable_name'])
        elif t == 'FieldAccessNode':
            self._expr(e['handle'])
            self.punct('.')
            self.word(e['name'])
        elif t == 'IndexAccessNode':
            self._expr(e['handle'])
            self.punct('[')
            self.expr(e['expression'])
            self.punct(']')
        elif t in ('ImplicitInvocationNode', 'ClassInvocationNode', 'BridgeInvocationNode', 'PortInvocationNode'):
            self.punct(e['namespace'], glue_next=True)
            self.punct('::')
            self.word(e['action_name'])
            self.punct('(')
            self.params(e['parameter_list'])
            self.punct(')')
        elif t == 'FunctionInvocationNode':
            self.punct('::')
            self.word(e['action_name'])
            self.punct('(')
            self.params(e['parameter_list'])
            self.punct(')')
        elif t == 'InstanceInvocationNode':
            self._expr(e['handle'])
            self.punct('.')
            self.word(e['action_name'])
            self.punct('(')
            self.params(e['parameter_list'])
            self.punct(')')
        else:
            raise ValueError(t)
        self.mark(e, first)

    def params(self, pl):
        first = len(self.toks)
        for k, p in enumerate(pl['children']):
            if k:
                self.punct(',')
            pf = len(self.toks)
            self.word(p['name'])
            self.punct(':')
            self.expr(p['expression'])
            self.mark(p, pf)
        if pl['children']:
            self.mark(pl, first)
            # the grammar lets a list end with a comma (parameter COMMA <empty list>): layout, not structure
            if self.choose(('trailing-comma', id(pl)), [False, False, False, True]):
                self.punct(',')

    # -- statements -----------------------------------------------------------------------------------
    def block(self, b):
        for s in b['statement_list']['children']:
            self.stmt(s)
            self.punct(';')
            for _ in range(self.choose(('extra-semicolon', id(s)), [0, 0, 0, 0, 0, 1])):
                self.punct(';')

    def opt(self, node, key, word):
        if self.choose((key, id(node)), [True, False]):
            self.kw(word)
            return True
        return False

    def evspec(self, es):
        first = len(self.toks)
        self.word(es['identifier'])
        if es.get('_poly'):
            self.punct('*')
        if es['meaning'] is not None:
            self.punct(':')
            m = es['meaning']
            if es.get('_bare_meaning'):
                self.word(m[1:-1])
            else:
                self.string(m)
        if es['event_data']['children'] or es.get('_empty_parens'):
            self.punct('(')
            f2 = len(self.toks)
            for k, it in enumerate(es['event_data']['children']):
                if k:
                    self.punct(',')
                pf = len(self.toks)
                self.word(it['name'])
                self.punct(':')
                self.expr(it['expression'])
                self.mark(it, pf)
            if es['event_data']['children'] and self.choose(('trailing-comma', id(es)), [False, False, False, True]):
                self.punct(',')
            self.punct(')')
        self.mark(es, first)

    def phrase(self, s):
        if s.get('phrase'):
            self.punct('.')
            if s.get('_bare_phrase'):
                self.word(s['phrase'][1:-1])
            else:
                self.string(s['phrase'])

    def stmt(self, s):
        t = s['t']
        first = len(self.toks)
        if t == 'BreakNode':
            self.kw('break')
        elif t == 'ContinueNode':
            self.kw('continue')
        elif t == 'ControlNode':
            self.kw('control'); self.kw('stop')
        elif t == 'ReturnNode':
            self.kw('return')
            if s['expression'] is not None:
                self.expr(s['expression'])
        elif t == 'AssignmentNode':
            ex = s['expression']
            lead = s.get('_lead')          # None | 'bridge' | 'transform' | 'send'
            if lead:
                self.kw(lead)
            elif self.opt(s, 'assign', 'assign'):
                pass
            self._expr(s['variable_access'])
            self.punct('=')
            if lead:
                self._expr(ex)             # the production takes an invocation, not a general expression
            else:
                self.expr(ex)
        elif t == 'InvocationStatementNode':
            lead = s.get('_lead')
            if lead:
                self.kw(lead)
            self._expr(s['invocation'])
        elif t == 'GeneratePortEventNode':
            self.kw('send')
            self.punct(s['port_name'], glue_next=True)
            self.punct('::')
            self.word(s['action_name'])
            self.punct('(')
            self.params(s['parameter_list'])
            self.punct(')')
            self.kw('to')
            self.expr(s['expression'])
        elif t in ('GenerateClassEventNode', 'GenerateCreatorEventNode'):
            self.kw('generate')
            self.evspec(s['event_specification'])
            self.kw('to')
            self.word(s['key_letter'])
            self.kw('creator' if t == 'GenerateCreatorEventNode' else s.get('_kind', 'class'))
        elif t == 'GenerateInstanceEventNode':
            self.kw('generate')
            self.evspec(s['event_specification'])
            self.kw('to')
            self._expr(s['variable_access'])
        elif t in ('CreateClassEventNode', 'CreateCreatorEventNode'):
            self.kw('create'); self.kw('event'); self.kw('instance')
            self.word(s['variable_name'])
            self.kw('of')
            self.evspec(s['event_specification'])
            self.kw('to')
            self.word(s['key_letter'])
            self.kw('creator' if t == 'CreateCreatorEventNode' else s.get('_kind', 'class'))
        elif t == 'CreateInstanceEventNode':
            self.kw('create'); self.kw('event'); self.kw('instance')
            self.word(s['variable_name'])
            self.kw('of')
            self.evspec(s['event_specification'])
            self.kw('to')
            self._expr(s['to_variable_access'])
        elif t == 'GeneratePreexistingNode':
            self.kw('generate')
            self._expr(s['variable_access'])
        elif t == 'CreateObjectNode':
            self.kw('create'); self.kw('object'); self.kw('instance')
            self.word(s['variable_name'])
            self.kw('of')
            self.word(s['key_letter'])
        elif t == 'CreateObjectNoVariableNode':
            self.kw('create'); self.kw('object'); self.kw('instance'); self.kw('of')
            self.word(s['key_letter'])
        elif t == 'DeleteNode':
            self.kw('delete'); self.kw('object'); self.kw('instance')
            if s['variable_name'].lower() == 'self':
                self.kw('self')
            else:
                self.word(s['variable_name'])
        elif t == 'ForEachNode':
            self.kw('for'); self.kw('each')
            self.word(s['instance_variable_name'])
            self.kw('in')
            self.word(s['set_variable_name'])
            self.opt(s, 'loop', 'loop')
            self.block(s['block'])
            self.end('for')
        elif t == 'WhileNode':
            self.kw('while')
            self.expr(s['expression'])
            self.opt(s, 'loop', 'loop')
            self.block(s['block'])
            self.end('while')
        elif t == 'IfNode':
            self.kw('if')
            self.expr(s['expression'])
            self.opt(s, 'then', 'then')
            self.block(s['block'])
            for ei in s['elif_list']['children']:
                ef = len(self.toks)
                self.kw('elif')
                cf = len(self.toks)
                self.expr(ei['expression'])
                self.opt(ei, 'then', 'then')
                self.block(ei['block'])
                self.spans[id(ei)] = [cf, len(self.toks) - 1]
            if s['else_clause'] is not None:
                self.kw('else')
                self.block(s['else_clause']['block'])
            self.end('if')
        elif t in ('RelateNode', 'RelateUsingNode', 'UnrelateNode', 'UnrelateUsingNode'):
            rel = t.startswith('Relate')
            self.kw('relate' if rel else 'unrelate')
            self._inst(s['from_variable_name'])
            self.kw('to' if rel else 'from')
            self._inst(s['to_variable_name'])
            self.kw('across')
            self.word(s['rel_id'])
            self.phrase(s)
            if t.endswith('UsingNode'):
                self.kw('using')
                self._inst(s['using_variable_name'])
        elif t in ('SelectFromNode', 'SelectFromWhereNode'):
            self.kw('select'); self.kw(s['cardinality'])
            self.word(s['variable_name'])
            self.kw('from')
            if self.opt(s, 'instances-of', 'instances'):
                self.kw('of')
            self.word(s['key_letter'])
            if t == 'SelectFromWhereNode':
                self.kw('where')
                self.expr(s['where_clause'])
        elif t in ('SelectRelatedNode', 'SelectRelatedWhereNode'):
            self.kw('select'); self.kw(s['cardinality'])
            self.word(s['variable_name'])
            self.kw('related'); self.kw('by')
            self._expr(s['handle'])
            for st_ in s['navigation_chain']['children']:
                sf = len(self.toks)
                self.punct('->')
                self.word(st_['key_letter'])
                self.punct('[')
                self.word(st_['rel_id'])
                self.phrase(st_)
                self.punct(']')
                self.mark(st_, sf)
            if t == 'SelectRelatedWhereNode':
                self.kw('where')
                self.expr(s['where_clause'])
        else:
            raise ValueError(t)
        self.mark(s, first)

    def _inst(self, name):
        if name.lower() == 'self':
            self.kw('self')
        else:
            self.word(name)


# ---------------------------------------------------------------------------------------------------------
# layout

BAD_PAIRS = set(['->', '==', '!=', '<=', '>=', '/*', '//', '::', '*/'])


def can_glue(a, b):
    """May token b follow token a without anything in between and still lex as the same two tokens?"""
    (ta, ka), (tb, kb) = a, b
    wordish_a = ka in 'wneg'
    wordish_b = kb in 'wneg'
    if wordish_a and wordish_b:
        return False
    if wordish_a and tb.startswith('::'):
        return False                              # 'loop::f()' would make 'loop' a NAMESPACE (lookahead rule)
    if ka == 's' or kb == 's':
        return ta in SAFE or tb in SAFE
    if (ka == 'n' and tb[:1] == '.') or (ta[-1:] == '.' and kb == 'n'):
        return False                              # '1' '.' / '.' '5' would become a fraction
    if ta[-1:] + tb[:1] in BAD_PAIRS:
        return False
    if ta[-1:] == ':' and tb[:1] == ':':
        return False
    return True


SAFE = set(['(', ')', '[', ']', ',', ';'])


def render(toks, gaps, end_gaps=None):
    """gaps[i] = separator placed BEFORE token i ('' = glue when that is lexically safe).
    Returns (text, positions); positions[i] = (offset, line, col, last_offset, last_line, last_col, start_line)."""
    out = []
    pos = []
    off = 0
    line, col = 1, 1
    ei = 0
    for i, (text, kind) in enumerate(toks):
        sep = gaps[i % len(gaps)] if gaps else ' '
        if i > 0 and toks[i - 1][1] == 'g':
            sep = ''                               # NAMESPACE is recognised by the lookahead (?=::)
        elif i > 0 and sep == '' and not can_glue(toks[i - 1], toks[i]):
            sep = ' '
        elif sep.strip():
            sep = ' ' + sep + ' '                  # comments are always padded
        if kind == 'e':
            inner = (end_gaps[ei % len(end_gaps)] if end_gaps else ' ')
            ei += 1
            text = text.replace('\x00', inner)
        for ch in sep:
            out.append(ch)
            off += 1
            if ch == '\n':
                line += 1; col = 1
            else:
                col += 1
        start = (off, line, col)
        last = start
        for ch in text:
            last = (off, line, col)
            out.append(ch)
            off += 1
            if ch == '\n':
                line += 1; col = 1
            else:
                col += 1
        pos.append(start + last + (start[1],))
    return ''.join(out), pos


def node_span(printer, positions, node):
    """-> (start_line, start_col, end_line, end_col, start_offset, end_offset_exclusive, end_token_multiline)"""
    f, l = printer.spans[id(node)]
    s = positions[f]
    e = positions[l]
    return (s[1], s[2], e[4], e[5], s[0], e[3] + 1, e[4] != e[6])


# ---------------------------------------------------------------------------------------------------------
# tree comparison (strict: node class, every scalar field, child count and order)

def compare(parsed, ast, path='root', merge_invocations=False, fold_keywords=True):
    """Returns None when equal, else a string describing the first difference."""
    if ast is None or parsed is None:
        if ast is None and parsed is None:
            return None
        return '%s: %s vs %s' % (path, type(parsed).__name__, None if ast is None else ast['t'])
    pt = type(parsed).__name__
    at = ast['t']
    if merge_invocations:
        inv = ('ImplicitInvocationNode', 'ClassInvocationNode', 'BridgeInvocationNode', 'PortInvocationNode')
        if pt in inv and at in inv:
            pt = at
    if pt != at:
        return '%s: node class %s, generated %s' % (path, pt, at)
    for name, kind in FIELDS[at]:
        pv = getattr(parsed, name)
        av = ast.get(name)
        if kind in 'sk':
            if name == 'phrase':
                av = av or ''
            if isinstance(av, str) and av.lower() == 'self' and isinstance(pv, str):
                pv, av = pv.lower(), av.lower()
            if kind == 'k' and fold_keywords and isinstance(pv, str) and isinstance(av, str):
                if pv.lower() != av.lower():
                    return '%s.%s: %r, generated %r' % (path, name, pv, av)
            elif pv != av:
                return '%s.%s: %r, generated %r' % (path, name, pv, av)
        elif kind == 'n':
            d = compare(pv, av, '%s.%s' % (path, name), merge_invocations, fold_keywords)
            if d:
                return d
        else:
            pl = list(pv)
            if len(pl) != len(av):
                return '%s.%s: %d children, generated %d' % (path, name, len(pl), len(av))
            for k, (x, y) in enumerate(zip(pl, av)):
                d = compare(x, y, '%s.%s[%d]' % (path, name, k), merge_invocations, fold_keywords)
                if d:
                    return d
    return None


def walk_pairs(parsed, ast):
    """Yield (parsed_node, ast_node) for structurally matching trees."""
    if ast is None or parsed is None:
        return
    yield parsed, ast
    for name, kind in FIELDS[ast['t']]:
        if kind == 'n':
            for x in walk_pairs(getattr(parsed, name), ast.get(name)):
                yield x
        elif kind == 'l':
            for p, a in zip(list(getattr(parsed, name)), ast.get(name)):
                for x in walk_pairs(p, a):
                    yield x


def body(stmts):
    return N('BodyNode', block=block(stmts))


def block(stmts):
    return N('BlockNode', statement_list=N('StatementListNode', children=list(stmts)))


def print_body(b, choose=None, case=None):
    p = Printer(choose, case)
    p.block(b['block'])
    return p
