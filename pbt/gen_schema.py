"""Schema / population generators, harness-side SQL writer, API builder.

A schema is plain JSON so that every case can be stored and replayed:

 {'classes': [{'name': 'A', 'attrs': [['Id', 'UNIQUE_ID'], ...]}, ...],
  'assocs':  [{'rel': 1, 'shape': 'simple',
               'src': 'B', 'src_keys': ['A_Id'], 'src_many': True, 'src_cond': True, 'src_phrase': '',
               'tgt': 'A', 'tgt_keys': ['Id'],   'tgt_many': False, 'tgt_cond': False, 'tgt_phrase': ''}],
  'uniques': [{'cls': 'A', 'name': 'I1', 'attrs': ['Id']}]}

src = the referring (FROM) end, tgt = the referred (TO) end.  Navigating from a src
instance to its tgt partner uses src_phrase, the opposite direction tgt_phrase
(that is what tests/test_xtuml/test_phrase.py documents).
"""
from hypothesis import strategies as st

import xtuml

CORE_TYPES = ['BOOLEAN', 'INTEGER', 'REAL', 'STRING', 'UNIQUE_ID']
KEY_TYPES = ['UNIQUE_ID', 'UNIQUE_ID', 'UNIQUE_ID', 'UNIQUE_ID', 'INTEGER', 'INTEGER', 'STRING', 'STRING', 'BOOLEAN', 'REAL']

CLASS_NAMES = ['A', 'B', 'Cx', 'D_d', 'TABLE', 'From', 'M', 'MC', 'Values', 'true', 'Index',
               'E1', 'Rop', 'unique', 'Zz9']
ATTR_NAMES = ['Id', 'Name', 'x', 'Y', 'val', 'TABLE', 'FROM', 'True', 'M', 'MC', 'to', 'On',
              'Phrase', 'self', 'Kind', 'n_1', 'Ref_Id', 'INSERT', 'q']
PHRASES = ['one', 'other', 'is before', 'follows', 'p', "Q q"]


def type_case(draw, ty):
    """Types are case-insensitive in pyxtuml: write them in a drawn case."""
    return draw(st.sampled_from([ty, ty.lower(), ty.capitalize()]))


def uniq_names(draw, pool, n):
    names = []
    seen = set()
    perm = draw(st.permutations(pool))
    for p in perm:
        if p.upper() in seen:
            continue
        seen.add(p.upper())
        names.append(p)
        if len(names) == n:
            break
    return names


@st.composite
def schemas(draw, min_classes=2, max_classes=4, max_assocs=4, shapes=('simple', 'reflexive', 'assoc', 'subsuper'),
            key_types=KEY_TYPES, multi_key=True, typecase=False, max_extra_attrs=3, shared_refs=False):
    ncls = draw(st.integers(min_classes, max_classes))
    cnames = uniq_names(draw, CLASS_NAMES, ncls + 3)
    classes = []
    uniques = []
    for cn in cnames[:ncls]:
        nattr = draw(st.integers(0, max_extra_attrs))
        anames = uniq_names(draw, ATTR_NAMES, nattr + 2)
        attrs = []
        nkey = draw(st.sampled_from([1, 1, 2])) if multi_key else 1
        for k in range(nkey):
            attrs.append([anames[k], draw(st.sampled_from(key_types))])
        for an in anames[nkey:nkey + nattr]:
            attrs.append([an, draw(st.sampled_from(CORE_TYPES))])
        classes.append({'name': cn, 'attrs': attrs})
        uniques.append({'cls': cn, 'name': 'I1', 'attrs': [a[0] for a in attrs[:nkey]]})
    spare = cnames[ncls:]
    assocs = []
    nass = draw(st.integers(1, max_assocs))
    rel = draw(st.integers(1, 5))

    def cls(name):
        for c in classes:
            if c['name'] == name:
                return c

    def ident(name):
        for u in uniques:
            if u['cls'] == name:
                return u['attrs']

    def add_refs(src, tgt, tag):
        """Append referential attributes to src mirroring tgt's identifier."""
        keys = []
        have = set(a[0].upper() for a in cls(src)['attrs'])
        tattrs = dict((a[0], a[1]) for a in cls(tgt)['attrs'])
        for k in ident(tgt):
            base = '%s_%s' % (tag, k)
            name = base
            i = 0
            while name.upper() in have:
                i += 1
                name = '%s%d' % (base, i)
            have.add(name.upper())
            cls(src)['attrs'].append([name, tattrs[k]])
            keys.append(name)
        return keys

    for _ in range(nass):
        shape = draw(st.sampled_from(list(shapes)))
        rel += draw(st.integers(1, 3))
        names = [c['name'] for c in classes]
        if shape == 'simple' and len(names) >= 2:
            src, tgt = draw(st.permutations(names))[:2]
            keys = None
            if shared_refs:
                # a referential attribute set shared with an earlier association of the same class (same key types)
                def ktypes(cn, attrs_):
                    return [t for n in attrs_ for an, t in cls(cn)['attrs'] if an == n]
                cands = [(prev, t2) for prev in assocs if prev['shape'] == 'simple' for t2 in names
                         if t2 not in (prev['src'], prev['tgt']) and ktypes(prev['src'], prev['src_keys']) == ktypes(t2, ident(t2))]
                if cands and draw(st.integers(0, 2)) > 0:
                    prev, tgt = draw(st.sampled_from(cands))
                    src = prev['src']
                    keys = list(prev['src_keys'])
            if keys is None:
                keys = add_refs(src, tgt, 'r%d' % rel)
            assocs.append({'rel': rel, 'shape': 'simple', 'src': src, 'src_keys': keys,
                           'src_many': draw(st.booleans()), 'src_cond': draw(st.booleans()), 'src_phrase': '',
                           'tgt': tgt, 'tgt_keys': list(ident(tgt)), 'tgt_many': False,
                           'tgt_cond': draw(st.booleans()), 'tgt_phrase': ''})
        elif shape == 'reflexive':
            c = draw(st.sampled_from(names))
            keys = add_refs(c, c, 'prev%d' % rel)
            p1, p2 = draw(st.permutations(PHRASES))[:2]
            assocs.append({'rel': rel, 'shape': 'reflexive', 'src': c, 'src_keys': keys,
                           'src_many': draw(st.sampled_from([False, False, True])), 'src_cond': True,
                           'src_phrase': p1,
                           'tgt': c, 'tgt_keys': list(ident(c)), 'tgt_many': False, 'tgt_cond': True,
                           'tgt_phrase': p2})
        elif shape == 'assoc' and spare:
            ln = spare.pop(0)
            classes.append({'name': ln, 'attrs': []})
            x = draw(st.sampled_from(names))
            y = draw(st.sampled_from(names))
            k1 = add_refs(ln, x, 'one')
            k2 = add_refs(ln, y, 'oth')
            uniques.append({'cls': ln, 'name': 'I1', 'attrs': k1 + k2})
            if x == y:
                p1, p2 = draw(st.permutations(PHRASES))[:2]
            else:
                p1 = p2 = ''
            many1 = draw(st.booleans())
            many2 = draw(st.booleans())
            # half 1 refers to x; navigating link->x uses p1, x->link uses p2 (and vice versa)
            assocs.append({'rel': rel, 'shape': 'assoc', 'src': ln, 'src_keys': k1, 'src_many': many1,
                           'src_cond': draw(st.booleans()), 'src_phrase': p1,
                           'tgt': x, 'tgt_keys': list(ident(x)), 'tgt_many': False, 'tgt_cond': False,
                           'tgt_phrase': p2})
            assocs.append({'rel': rel, 'shape': 'assoc', 'src': ln, 'src_keys': k2, 'src_many': many2,
                           'src_cond': draw(st.booleans()), 'src_phrase': p2,
                           'tgt': y, 'tgt_keys': list(ident(y)), 'tgt_many': False, 'tgt_cond': False,
                           'tgt_phrase': p1})
        elif shape == 'subsuper' and len(spare) >= 1:
            sup = draw(st.sampled_from(names))
            nsub = min(len(spare), draw(st.integers(1, 2)))
            for _i in range(nsub):
                sn = spare.pop(0)
                classes.append({'name': sn, 'attrs': []})
                keys = add_refs(sn, sup, 'sup')
                uniques.append({'cls': sn, 'name': 'I1', 'attrs': keys})
                assocs.append({'rel': rel, 'shape': 'subsuper', 'src': sn, 'src_keys': keys, 'src_many': False,
                               'src_cond': True, 'src_phrase': '',
                               'tgt': sup, 'tgt_keys': list(ident(sup)), 'tgt_many': False, 'tgt_cond': False,
                               'tgt_phrase': ''})
    if not assocs:
        names = [c['name'] for c in classes]
        src, tgt = names[0], names[1]
        keys = add_refs(src, tgt, 'r%d' % rel)
        assocs.append({'rel': rel, 'shape': 'simple', 'src': src, 'src_keys': keys, 'src_many': True,
                       'src_cond': True, 'src_phrase': '', 'tgt': tgt, 'tgt_keys': list(ident(tgt)),
                       'tgt_many': False, 'tgt_cond': True, 'tgt_phrase': ''})
    simple = [a for a in assocs if a['shape'] == 'simple']
    if shared_refs and simple and spare and draw(st.booleans()):
        # a second association formalised by the SAME referential attributes, referring to another class whose
        # identifier has the same types but (typically) other attribute names
        prev = draw(st.sampled_from(simple))
        tn = spare.pop(0)
        types_ = [t for n in prev['src_keys'] for an, t in cls(prev['src'])['attrs'] if an == n]
        tattrs = [['Ident%d' % k if draw(st.booleans()) else prev['tgt_keys'][k], t] for k, t in enumerate(types_)]
        classes.append({'name': tn, 'attrs': [list(x) for x in tattrs]})
        uniques.append({'cls': tn, 'name': 'I1', 'attrs': [x[0] for x in tattrs]})
        rel += 1
        assocs.append({'rel': rel, 'shape': 'simple', 'src': prev['src'], 'src_keys': list(prev['src_keys']),
                       'src_many': draw(st.booleans()), 'src_cond': draw(st.booleans()), 'src_phrase': '',
                       'tgt': tn, 'tgt_keys': [x[0] for x in tattrs], 'tgt_many': False,
                       'tgt_cond': draw(st.booleans()), 'tgt_phrase': ''})
    for a in assocs:
        if len(a['src_keys']) > 1 and draw(st.booleans()):
            order = draw(st.permutations(list(range(len(a['src_keys'])))))
            a['src_keys'] = [a['src_keys'][i] for i in order]
            a['tgt_keys'] = [a['tgt_keys'][i] for i in order]
    if typecase:
        for c in classes:
            for a in c['attrs']:
                a[1] = type_case(draw, a[1])
    return {'classes': classes, 'assocs': assocs, 'uniques': uniques}


class Schema(object):
    """Lookup helpers over the JSON schema."""

    def __init__(self, js):
        self.js = js
        self.classes = js['classes']
        self.assocs = js['assocs']
        self.uniques = js.get('uniques', [])
        self.by_name = dict((c['name'].upper(), c) for c in self.classes)

    def cls(self, name):
        return self.by_name[name.upper()]

    def attrs(self, name):
        return [tuple(a) for a in self.cls(name)['attrs']]

    def attr_type(self, cname, aname):
        for n, t in self.cls(cname)['attrs']:
            if n.upper() == aname.upper():
                return t.upper()
        raise KeyError((cname, aname))

    def referentials(self, cname):
        """attr name -> list of (assoc index, referred attr) in definition order."""
        out = {}
        for i, a in enumerate(self.assocs):
            if a['src'].upper() == cname.upper():
                for sk, tk in zip(a['src_keys'], a['tgt_keys']):
                    out.setdefault(sk, []).append((i, tk))
        return out

    def plain_attrs(self, cname):
        refs = self.referentials(cname)
        return [(n, t) for n, t in self.attrs(cname) if n not in refs]


# ---------------------------------------------------------------------------
# values

HARD_STRINGS = ["'", "''", "it's", '--', '-- x\n', 'a\nb', '\x00', 'x\x00y', '"', ';', ')', '(', ',',
                "');", 'åäö', '中文', '\U0001f600', ' ', '\t', '\\', "\\'", '%s', '%d', 'R1', '1C',
                "INSERT INTO X VALUES ('", "/*", "*/"]


def strings(hard=True, cr=False):
    alpha = st.characters(blacklist_categories=('Cs',), blacklist_characters=(None if cr else '\r'))
    base = st.text(alpha, max_size=12)
    if not hard:
        return base
    hs = st.sampled_from(HARD_STRINGS)
    return st.one_of(base, hs, st.builds(lambda a, b, c: a + b + c, base, hs, base))


def integers():
    return st.one_of(st.integers(-5, 5), st.integers(-2 ** 70, 2 ** 70),
                     st.sampled_from([2 ** 63, -2 ** 63, 2 ** 64, -2 ** 64 - 1, 2 ** 31, 10 ** 20]))


def reals():
    f = st.floats(allow_nan=False, allow_infinity=False, width=64)
    return st.one_of(st.sampled_from([0.0, 1.5, -1.5, 1e15, -3.25e17, 1e-7, 123456.789012, -0.000001, 2.5e-7]),
                     f.filter(lambda x: abs(x) < 1e300))


def ids(nonzero=False):
    lo = 1 if nonzero else 0
    return st.one_of(st.integers(lo, 6), st.integers(lo, 2 ** 128 - 1),
                     st.sampled_from([2 ** 64, 2 ** 127, 2 ** 128 - 1]))


def value_of(ty, hard=True, cr=False):
    ty = ty.upper()
    if ty == 'BOOLEAN':
        return st.booleans()
    if ty == 'INTEGER':
        return integers()
    if ty == 'REAL':
        return reals()
    if ty == 'STRING':
        return strings(hard, cr)
    if ty == 'UNIQUE_ID':
        return ids()
    raise ValueError(ty)


def small_key_value(ty, with_null=True):
    """Values from a small pool so that keys collide / dangle / are null."""
    ty = ty.upper()
    if ty == 'UNIQUE_ID':
        return st.sampled_from(([0] if with_null else []) + [1, 1, 2, 2 ** 100])
    if ty == 'INTEGER':
        return st.sampled_from([0, 1, 1, -1, 2 ** 65])
    if ty == 'STRING':
        return st.sampled_from(([''] if with_null else []) + ['a', 'a', "c'", 'A'])
    if ty == 'BOOLEAN':
        return st.booleans()
    if ty == 'REAL':
        return st.sampled_from([0.0, 1.5, -2.25])
    raise ValueError(ty)


def default_of(ty):
    return {'BOOLEAN': False, 'INTEGER': 0, 'REAL': 0.0, 'STRING': '', 'UNIQUE_ID': 0}[ty.upper()]


def is_null(ty, v):
    """The loader's/linker's notion of a null key value (xtuml.meta._is_null)."""
    if v is None:
        return True
    ty = ty.upper()
    if ty == 'UNIQUE_ID':
        return v == 0
    if ty == 'STRING':
        return v == ''
    return False


# ---------------------------------------------------------------------------
# building through the API and writing SQL with the harness's own writer

def build_api(schema_js, id_generator=None, formalize=True):
    m = xtuml.MetaModel(id_generator if id_generator is not None else xtuml.IntegerGenerator())
    for c in schema_js['classes']:
        m.define_class(c['name'], [tuple(a) for a in c['attrs']])
    for u in schema_js.get('uniques', []):
        m.define_unique_identifier(u['cls'], u['name'], *u['attrs'])
    for a in schema_js['assocs']:
        ass = m.define_association(a['rel'], a['src'], list(a['src_keys']), a['src_many'], a['src_cond'],
                                   a['src_phrase'], a['tgt'], list(a['tgt_keys']), a['tgt_many'], a['tgt_cond'],
                                   a['tgt_phrase'])
        if formalize:
            ass.formalize()
    return m


def card(many, cond):
    return ('M' if many else '1') + ('C' if cond else '')


def sql_string(s):
    return "'" + s.replace("'", "''") + "'"


def sql_value(ty, v):
    import uuid
    ty = ty.upper()
    if v is None:
        v = default_of(ty)
    if ty == 'BOOLEAN':
        return '1' if v else '0'
    if ty == 'INTEGER':
        return str(int(v))
    if ty == 'REAL':
        return '%f' % v
    if ty == 'STRING':
        return sql_string(v)
    if ty == 'UNIQUE_ID':
        return '"%s"' % uuid.UUID(int=v)
    raise ValueError(ty)


def schema_statements(schema_js):
    """One SQL statement string per class, association and identifier."""
    out = []
    for c in schema_js['classes']:
        out.append('CREATE TABLE %s (%s);' % (c['name'], ', '.join('%s %s' % (n, t) for n, t in c['attrs'])))
    for a in schema_js['assocs']:
        s = 'CREATE ROP REF_ID R%d FROM %s %s (%s)' % (a['rel'], card(a['src_many'], a['src_cond']),
                                                      a['src'], ', '.join(a['src_keys']))
        if a['src_phrase']:
            s += ' PHRASE %s' % sql_string(a['src_phrase'])
        s += ' TO %s %s (%s)' % (card(a['tgt_many'], a['tgt_cond']), a['tgt'], ', '.join(a['tgt_keys']))
        if a['tgt_phrase']:
            s += ' PHRASE %s' % sql_string(a['tgt_phrase'])
        out.append(s + ';')
    for u in schema_js.get('uniques', []):
        out.append('CREATE UNIQUE INDEX %s ON %s (%s);' % (u['name'], u['cls'], ', '.join(u['attrs'])))
    return out


def insert_statement(schema, cname, row, named=False, order=None):
    """row: dict attr -> value (all attributes, referential ones included)."""
    attrs = schema.attrs(cname)
    if named:
        idx = order if order is not None else list(range(len(attrs)))
        names = [attrs[i][0] for i in idx]
        vals = [sql_value(attrs[i][1], row.get(attrs[i][0])) for i in idx]
        return 'INSERT INTO %s (%s) VALUES (%s);' % (cname, ', '.join(names), ', '.join(vals))
    vals = [sql_value(t, row.get(n)) for n, t in attrs]
    return 'INSERT INTO %s VALUES (%s);' % (cname, ', '.join(vals))
